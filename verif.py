#!/usr/bin/env python3
"""CLI of the verification machinery.  verif.py setup | check <Cxx> [--tier quick|thorough] | replay <file>"""
import sys, os, json, argparse
sys.path.insert(0, os.path.dirname(os.path.abspath(__file__)))


def main():
    ap = argparse.ArgumentParser()
    sub = ap.add_subparsers(dest='cmd')
    c = sub.add_parser('check'); c.add_argument('prop'); c.add_argument('--tier', default=os.environ.get('VERIF_TIER', 'quick'))
    r = sub.add_parser('replay'); r.add_argument('file')
    sub.add_parser('setup')
    a = ap.parse_args()
    if a.cmd == 'check':
        from msmv import runner
        sys.exit(runner.run_check(a.prop, a.tier))
    elif a.cmd == 'replay':
        from msmv import runner, plans
        w = json.load(open(a.file)) if a.file.endswith('.json') else None
        if w is None:
            # a libFuzzer artifact: re-run it on the target it belongs to (rebuilt by the check for the current tree)
            import subprocess, glob as _g, re as _re
            from msmv import build
            base = os.path.basename(a.file)
            m = _re.match(r'(C\d+)_(.+)_(crash|leak)-', base)
            if not m:
                print('unknown artifact name'); sys.exit(2)
            prop_, tgt = m.group(1), m.group(2)
            if prop_ == 'C14':
                bins = _g.glob(os.path.join(build.BUILD, 'puml_fuzz_' + build.tree_hash()[:16], 'puml_fuzz'))
            else:
                bins = _g.glob(os.path.join(build.BUILD, 'c20b_' + build.tree_hash()[:16], tgt))
            if not bins:
                print('build the target first: verif.py check %s' % prop_); sys.exit(2)
            r = subprocess.run([bins[0], a.file], capture_output=True, text=True)
            if r.returncode == 0:
                print('replay passes on this tree'); sys.exit(0)
            print('VIOLATION property=%s replay=%s' % (prop_, a.file)); print(r.stderr[-800:]); sys.exit(1)
        if w.get('kind') == 'pumlguard':
            ok, detail = runner.replay_pumlguard(w['expr'])
            if ok:
                print('replay passes on this tree'); sys.exit(0)
            print('VIOLATION property=C14 replay=%s' % a.file); print('  ' + detail); sys.exit(1)
        msgs, sig = runner.replay_failure(w['property'], plans.PLANS[w['property']], w['spec'], w['cfg'], w['case'], times=1, fault=w.get('fault'))
        if msgs[0] is None:
            print('replay passes on this tree'); sys.exit(0)
        print('VIOLATION property=%s replay=%s' % (w['property'], a.file)); print('  ' + msgs[0]); sys.exit(1)
    elif a.cmd == 'setup':
        from msmv import setup
        sys.exit(setup.main())
    else:
        ap.print_help(); sys.exit(2)


if __name__ == '__main__':
    main()
