"""Reference interpreter of the semantics the properties state (DESIGN.md Appendix A).
Independent of MSM: works on the spec data only and produces the same token trace format as the SUT.

The selection / execution / hierarchy / history / pseudo-state rules are the ones the properties spell out.  Where the
documentation leaves an order open and the back-ends differ (queue mechanics, completion re-tries) the model has a
dialect switch ('back' for back/back11, 'mp11' for backmp11) that follows the documented algorithm of each back-end;
oracles that must not depend on such choices compare projections or use invariants instead of the full trace."""
from . import spec as S

TAKEN, REJECTED, DEFERRED = 'T', 'R', 'D'


class ModelThrow(Exception):
    pass


class MState:
    """run-time state of one machine object"""

    def __init__(self, m, parent=None):
        self.m = m
        self.parent = parent
        self.active = [reg[0] for reg in m['regions']]
        self.hist = [reg[0] for reg in m['regions']]
        self.subs = {}
        for s, st in m['states'].items():
            if st['kind'] == 'sub':
                self.subs[s] = MState(st['machine'], self)
        self.queue = []          # back: message queue [(ev, source flags)]
        self.deferred = []       # back: deferred queue [[ev, seq]]
        self.cur_seq = 0         # back: char sequence counter
        self.pool = []           # mp11: event pool [occurrence dict]
        self.seq = 0             # mp11: uint16 sequence counter
        self.processing = False
        self.running = False
        self.has_completion = any(r['ev'] is None for r in m['table'])
        self.has_deferral = bool(m.get('activate_deferred')) or any(
            (st.get('deferred') or (st['kind'] == 'sub' and st['machine'].get('as_state', {}).get('deferred')))
            for st in m['states'].values())

    def clone(self, parent=None):
        c = MState.__new__(MState)
        c.__dict__.update(self.__dict__)
        c.parent = parent
        c.active = list(self.active)
        c.hist = list(self.hist)
        c.subs = {k: v.clone(c) for k, v in self.subs.items()}
        c.queue = list(self.queue)
        c.deferred = [list(x) for x in self.deferred]
        c.pool = [dict(x) for x in self.pool]
        c.processing = False
        return c


class Model:
    def __init__(self, spec, dialect='back'):
        self.spec = spec
        self.dialect = dialect     # 'back' (back, back11) | 'mp11'
        self.root = MState(spec['root'])
        self.trace = []
        self.val = 0
        self.frozen = 0
        self.ordinal = 0
        self.scripts = {}
        self.fired = 0
        self.cg = S.completion_guard_atoms(spec)      # atom -> source state
        self.freeze_by_state = {}
        for a, src in self.cg.items():
            self.freeze_by_state.setdefault(src, []).append(a)
        self.kleene = {e['name'] for e in spec['events'] if e.get('kleene')}
        self.policy = spec['root'].get('policy', 'default')
        self.inflight = None       # (machine state, region, source, target, phase) of the transition being executed

    # ------------------------------------------------------------------ utilities
    def tok(self, t):
        self.trace.append(t)

    def evdesc(self, ev):
        if ev is None:
            return '?'
        if ev == 'none':
            return 'none'
        if len(ev) > 2 and ev[2] == 'any':
            return 'any(%s#%d)' % (ev[0], ev[1])      # Kleene trigger: behaviours receive an any holding the original event
        return '%s#%d' % (ev[0], ev[1])

    def callback(self, ms, may_throw=True):
        """script hook after every behaviour (same ordinal scheme as rt.hpp)"""
        k = self.ordinal
        self.ordinal += 1
        for sc in self.scripts.get(k, ()):
            self.fired += 1
            if sc[0] == 't':
                if not may_throw:
                    self.tok('!nothrow')
                    continue
                self.tok('!throw')
                raise ModelThrow()
            elif sc[0] == 'p':
                _, evi, payload, how = sc
                self.tok('!sub%s:%d#%d' % (how, evi, payload))
                ev = (self.spec['events'][evi]['name'], payload)
                target = self.root if how in ('r', 'Q') else ms
                if how in ('f', 'r'):
                    self.api_process(target, ev)
                else:
                    self.api_enqueue(target, ev)
                self.tok('!ret')
            elif sc[0] == 'b':
                self.tok('pb{%s}' % self.probe_inside())

    def atom_value(self, n):
        if n in self.cg:
            return (self.frozen >> n) & 1
        return (self.val >> n) & 1

    def eval_guard(self, ms, g, ev):
        if g is None:
            return True
        k = g[0]
        if k == 'g':
            v = self.atom_value(g[1])
            self.tok('g%d=%d/%s' % (g[1], v, self.evdesc(ev)))
            if ev != 'none':
                self.callback(ms)      # guards of completion rows are no script positions (see rt.hpp)
            return bool(v)
        if k == 'not':
            return not self.eval_guard(ms, g[1], ev)
        if k == 'and':
            return self.eval_guard(ms, g[1], ev) and self.eval_guard(ms, g[2], ev)
        if k == 'or':
            return self.eval_guard(ms, g[1], ev) or self.eval_guard(ms, g[2], ev)
        raise ValueError(g)

    def row_event(self, row, ev):
        """the event as the behaviours of a row see it: the row's trigger type (a public base of the event's type slices
        nothing observable but is what the behaviour's signature receives) or an any holding the original for Kleene rows"""
        if not isinstance(ev, tuple) or row['ev'] is None:
            return ev
        if row['ev'] in self.kleene:
            return (ev[0], ev[1], 'any')
        if row['ev'] != ev[0]:
            return (row['ev'], ev[1])
        return ev

    def matches(self, trigger, ev):
        if ev == 'none':
            return trigger is None
        if trigger is None:
            return False
        if trigger in self.kleene:
            return True
        return trigger in S.event_bases(self.spec, ev[0])

    # ------------------------------------------------------------------ entry / exit
    def do_entry_state(self, ms, r_, sname, ev, how=None):
        st = ms.m['states'][sname]
        if st['kind'] == 'sub':
            self.enter_machine(ms.subs[sname], ev, how)
        else:
            self.state_entry(ms, sname, ev)
            if self.dialect == 'mp11':
                self.mp11_entry_completed(ms, r_, sname)

    def state_entry(self, ms, sname, ev):
        for a in self.freeze_by_state.get(sname, ()):
            self.frozen = (self.frozen & ~(1 << a)) | (self.val & (1 << a))
        self.tok('en:%s/%s' % (sname, self.evdesc(ev)))
        self.callback(ms)

    def mp11_entry_completed(self, ms, r_, sname):
        st = ms.m['states'][sname]
        if st['kind'] != 'sub' and any(r['ev'] is None and r['src'] == sname for r in ms.m['table']):
            ms.pool.insert(0, dict(k='c', region=r_, state=sname, deleted=False))

    def enter_machine(self, sub, ev, how):
        m = sub.m
        named = {}
        if how is not None:
            if how[0] == 'direct':
                for t in how[1]:
                    named[m['states'][t]['region']] = t
            elif how[0] == 'entry_pt':
                named[m['states'][how[1]]['region']] = how[1]
        all_named = len(named) == len(m['regions'])
        h = m.get('history', 'none')
        restore = False
        if h == 'always':
            restore = True
        elif h != 'none':
            evname = ev[0] if isinstance(ev, tuple) else None
            restore = evname in h['shallow']
        sub.running = True
        sub.processing = True
        try:
            self._enter_machine_body(sub, ev, how, m, named, all_named, restore)
        except ModelThrow:
            sub.processing = False      # the machine must stay usable after a throwing entry behaviour (C12)
            raise

    def _enter_machine_body(self, sub, ev, how, m, named, all_named, restore):
        if self.dialect == 'back':
            sub.active = list(sub.hist) if restore else [reg[0] for reg in m['regions']]
            self.tok('en:%s/%s' % (m['name'], self.evdesc(ev)))
            self.callback(sub.parent if sub.parent is not None else sub)
            for r_, t in named.items():
                sub.active[r_] = t
            for r_ in range(len(m['regions'])):
                self.do_entry_state(sub, r_, sub.active[r_], ev)
            if sub.has_completion:
                self.back_process_event(sub, 'none', {'D'})
            if how is not None and how[0] == 'entry_pt':
                self.back_process_event(sub, ev, {'D'})
            sub.processing = False
            self.back_handle_deferred(sub, True)
            self.back_message_queue(sub)
        else:
            self.tok('en:%s/%s' % (m['name'], self.evdesc(ev)))
            self.callback(sub.parent if sub.parent is not None else sub)
            if not all_named:
                if restore:
                    sub.active = list(sub.hist)
                else:
                    sub.active = [reg[0] for reg in m['regions']]
                    sub.pool = []
            for r_, t in named.items():
                sub.active[r_] = t
            if all_named:
                order = [m['states'][t]['region'] for t in how[1]] if how[0] == 'direct' else list(named)
            else:
                order = range(len(m['regions']))
            for r_ in order:
                self.do_entry_state(sub, r_, sub.active[r_], ev)
            sub.processing = False
            self.mp11_process_pool(sub)
            if how is not None and how[0] == 'entry_pt':
                self.mp11_process_event(sub, ev, 'direct')

    def do_exit_state(self, ms, sname, ev):
        st = ms.m['states'][sname]
        if st['kind'] == 'sub':
            sub = ms.subs[sname]
            for r_ in range(len(sub.m['regions'])):
                self.do_exit_state(sub, sub.active[r_], ev)
            self.tok('ex:%s/%s' % (sname, self.evdesc(ev)))
            self.callback(ms)
            sub.hist = list(sub.active)
            sub.running = False
            if self.dialect == 'back':
                h = sub.m.get('history', 'none')
                keep = h == 'always' or (h != 'none' and isinstance(ev, tuple) and ev[0] in h['shallow'])
                if not keep:
                    sub.deferred = []
        else:
            self.tok('ex:%s/%s' % (sname, self.evdesc(ev)))
            self.callback(ms)

    # ------------------------------------------------------------------ rows
    def exec_row(self, ms, r_, row, ev):
        """guard already evaluated true"""
        tgt = row.get('tgt')
        acts = row.get('actions') or []
        if acts == 'defer':
            self.defer_action(ms, ev)
            return DEFERRED
        if tgt is None:
            for a in acts:
                self.tok('a%d/%s' % (a, self.evdesc(ev)))
                self.callback(ms)
            return TAKEN
        src = row['src']
        srcname = src if isinstance(src, str) else src['exit_pt'][0]
        if isinstance(tgt, str):
            tname, how = tgt, None
        elif 'direct' in tgt:
            tname, how = tgt['direct'][0], ('direct', tgt['direct'][1])
        else:
            tname, how = tgt['entry_pt'][0], ('entry_pt', tgt['entry_pt'][1])
        # the id reported for the transitioning region switches from source to target at the point the
        # active-state-switch policy documents (after the guard / exit / action / entry)
        def reached(phase):
            ms.active[r_] = self.policy_state(srcname, tname, phase)
        reached('guard_done')
        try:
            self.do_exit_state(ms, srcname, ev)
            reached('exit_done')
            for a in acts:
                self.tok('a%d/%s' % (a, self.evdesc(ev)))
                self.callback(ms)
            reached('action_done')
            self.do_entry_state_noc(ms, r_, tname, ev, how)
            reached('entry_done')
        except ModelThrow:
            # the active state stays what the switch policy prescribes for the phase reached
            raise
        if self.dialect == 'mp11':
            self.mp11_entry_completed(ms, r_, tname)
        tst = ms.m['states'][tname]
        if tst['kind'] == 'exit_pt':
            self.forward_exit(ms, tname, ev)
        return TAKEN

    def do_entry_state_noc(self, ms, r_, sname, ev, how):
        """entry of a transition target: completion bookkeeping (mp11) is done by the caller after the switch"""
        st = ms.m['states'][sname]
        if st['kind'] == 'sub':
            self.enter_machine(ms.subs[sname], ev, how)
        else:
            self.state_entry(ms, sname, ev)

    def policy_state(self, src, tgt, phase):
        """state reported for the transitioning region once `phase` has completed"""
        pol = self.policy
        order = ['guard_done', 'exit_done', 'action_done', 'entry_done']
        switch_at = {'default': 'entry_done', 'after_entry': 'entry_done', 'after_action': 'action_done',
                     'after_exit': 'exit_done', 'before': 'guard_done'}[pol]
        return tgt if order.index(phase) >= order.index(switch_at) else src

    def forward_exit(self, ms, pt, ev):
        fwd = ms.m['states'][pt]['event']
        nev = (fwd, ev[1] if isinstance(ev, tuple) else 0)
        # both back-end families hand the exit point's event to the OUTERMOST machine (back: set_containing_sm passes the
        # top-level machine down to every nesting level; backmp11: the root pointer), which dispatches it like any event:
        # the connected row of the enclosing machine fires, and other regions of outer levels see the event too
        if self.dialect == 'back':
            self.back_process_event(self.root, nev, {'D'})
        else:
            self.mp11_process_event(self.root, nev, 'direct')

    def defer_action(self, ms, ev):
        if self.dialect == 'back':
            ms.deferred.append([ev, (ms.cur_seq + 1) & 0xFF])
        else:
            ms.pool.append(dict(k='e', ev=ev, seq=ms.seq, deleted=False))

    # ------------------------------------------------------------------ dispatch
    def candidates(self, ms, sname, ev):
        m = ms.m
        st = m['states'][sname]
        out = []
        if st['kind'] != 'sub':
            for row in reversed(st.get('internal', [])):
                if self.matches(row['ev'], ev):
                    out.append(dict(row, src=sname, tgt=None))
        for row in reversed(m['table']):
            src = row['src']
            if isinstance(src, str):
                if src != sname:
                    continue
            else:
                sub, pt = src['exit_pt']
                if sub != sname:
                    continue
                if pt not in ms.subs[sub].active:
                    continue
            if self.matches(row['ev'], ev):
                out.append(row)
        return out

    def blocked(self, ms, ev):
        m = ms.m
        term = intr = end = False
        for s in ms.active:
            st = m['states'][s]
            if st['kind'] == 'terminate':
                term = True
            if st['kind'] == 'interrupt':
                intr = True
                if isinstance(ev, tuple) and ev[0] in st['end_events']:
                    end = True
        return term or (intr and not end)

    def state_defers(self, ms, sname, ev):
        if not isinstance(ev, tuple):
            return False
        st = ms.m['states'][sname]
        d = st.get('deferred') or []
        if st['kind'] == 'sub':
            d = st['machine'].get('as_state', {}).get('deferred') or []
        return ev[0] in d

    def step(self, ms, ev, report_nt):
        m = ms.m
        result = set()
        for r_ in range(len(m['regions'])):
            sname = ms.active[r_]
            st = m['states'][sname]
            rr = set()
            if st['kind'] == 'sub':
                sub = ms.subs[sname]
                if self.dialect == 'back':
                    rr = set(self.back_process_event(sub, ev, set()))
                else:
                    rr = set(self.mp11_process_event(sub, ev, 'sub'))
            if TAKEN not in rr and DEFERRED not in rr:
                cands = self.candidates(ms, sname, ev)
                if not cands and self.dialect == 'back' and self.state_defers(ms, sname, ev):
                    ms.deferred.append([ev, (ms.cur_seq + 1) & 0xFF])
                    rr.add(DEFERRED)
                for row in cands:
                    rev = self.row_event(row, ev)
                    if self.eval_guard(ms, row.get('guard'), rev):
                        rr.add(self.exec_row(ms, r_, row, rev))
                        break
                    else:
                        rr.add(REJECTED)
            result |= rr
        if TAKEN not in result and (DEFERRED not in result or self.dialect == 'back'):
            for row in reversed(m.get('internal', [])):
                if self.matches(row['ev'], ev):
                    rev = self.row_event(row, ev)
                    if self.eval_guard(ms, row.get('guard'), rev):
                        result.add(self.exec_row(ms, None, dict(row, tgt=None), rev))
                        break
                    else:
                        result.add(REJECTED)
        if not result and report_nt and ev != 'none':
            for r_ in range(len(m['regions'])):
                self.tok('nt:%s:%s/%s' % (m['name'], ms.active[r_], self.evdesc(ev)))
        return result

    def guarded_step(self, ms, ev, report_nt):
        try:
            return self.step(ms, ev, report_nt)
        except ModelThrow:
            self.tok('xc:%s/%s' % (ms.m['name'], self.evdesc(ev)))
            self.callback(ms, False)
            return set()

    # ------------------------------------------------------------------ back / back11 queue mechanics
    def back_process_event(self, ms, ev, source):
        if self.blocked(ms, ev):
            return {TAKEN}
        if ms.processing:
            ms.queue.append((ev, {'D', 'Q'}))
            return {TAKEN}
        ms.processing = True
        try:
            handled = self.guarded_step(ms, ev, (ms.parent is None) or ('D' in source))
        finally:
            ms.processing = False
        if ms.has_completion and TAKEN in handled:
            self.back_process_event(ms, 'none', set(source) | {'D'})
        if 'F' not in source:
            self.back_handle_deferred(ms, TAKEN in handled)
            if 'Q' not in source:
                self.back_message_queue(ms)
        return handled

    def back_completion_after_entry(self, ms):
        if ms.has_completion:
            self.back_process_event(ms, 'none', {'D'})

    def back_message_queue(self, ms):
        while ms.queue:
            ev, src = ms.queue.pop(0)
            self.back_process_event(ms, ev, src)

    def back_handle_deferred(self, ms, new_seq):
        if not ms.has_deferral:
            return
        if new_seq:
            ms.cur_seq = (ms.cur_seq + 1) & 0xFF
        not_only = False
        while ms.deferred:
            ev, seq = ms.deferred[0]
            if ms.cur_seq != seq:
                break
            ms.deferred.pop(0)
            res = self.back_process_event(ms, ev, {'D', 'F'})
            if res and res != {DEFERRED}:
                not_only = True
            if not_only:
                break
        if not_only:
            ms.deferred.sort(key=lambda d: -self.s8(d[1]))
            for d in ms.deferred:
                d[1] = (ms.cur_seq + 1) & 0xFF
            self.back_handle_deferred(ms, True)

    @staticmethod
    def s8(x):
        return x - 256 if x >= 128 else x

    # ------------------------------------------------------------------ backmp11 pool mechanics
    def mp11_is_deferred(self, ms, ev):
        if not isinstance(ev, tuple):
            return False
        for s in ms.active:
            st = ms.m['states'][s]
            if st['kind'] == 'sub':
                d = st['machine'].get('as_state', {}).get('deferred') or []
                if ev[0] in d:
                    return True
                if self.mp11_is_deferred(ms.subs[s], ev):
                    return True
            else:
                if ev[0] in (st.get('deferred') or []):
                    cd = dict(st.get('cond_defer') or [])
                    if ev[0] in cd:
                        v = self.atom_value(cd[ev[0]])      # deferral predicate: logged like a guard, no script position
                        self.tok('g%d=%d/%s' % (cd[ev[0]], v, self.evdesc(ev)))
                        if v:
                            return True
                    else:
                        return True
        return False

    def mp11_process_event(self, ms, ev, info):
        if self.blocked(ms, ev):
            return {TAKEN}
        if info != 'pool':
            if ms.processing or (info != 'sub' and self.mp11_is_deferred(ms, ev)):
                ms.pool.append(dict(k='e', ev=ev, seq=(ms.seq - 1) & 0xFFFF, deleted=False))
                return {DEFERRED}
            ms.seq = (ms.seq + 1) & 0xFFFF
        ms.processing = True
        try:
            result = self.guarded_step(ms, ev, info != 'sub')
        finally:
            ms.processing = False
        if info != 'pool':
            self.mp11_process_pool(ms)
        return result

    def mp11_process_pool(self, ms, max_events=None):
        if not ms.pool or ms.processing:
            return 0
        i = 0
        processed = 0
        while True:
            occ = ms.pool[i]
            if occ['deleted']:
                ms.pool.pop(i)
            else:
                is_completion = occ['k'] == 'c'
                if max_events is not None and processed == max_events and not is_completion:
                    break       # completion work belongs to the occurrence that caused it (C10) and is not counted
                res = self.mp11_try_process(ms, occ)
                if res is None:
                    i += 1
                else:
                    if res != {DEFERRED} and not is_completion:
                        processed += 1
                    i = 0
                    if DEFERRED not in res:
                        ms.seq = (ms.seq + 1) & 0xFFFF
            if i >= len(ms.pool):
                break
        return processed

    def mp11_try_process(self, ms, occ):
        if occ['k'] == 'c':
            occ['deleted'] = True
            return self.mp11_completion(ms, occ['region'], occ['state'])
        if occ['seq'] == ms.seq or self.mp11_is_deferred(ms, occ['ev']):
            return None
        occ['deleted'] = True
        return self.mp11_process_event(ms, occ['ev'], 'pool')

    def mp11_completion(self, ms, r_, sname):
        if any(ms.m['states'][s]['kind'] in ('terminate', 'interrupt') for s in ms.active):
            return {TAKEN}
        ms.processing = True
        result = set()
        try:
            try:
                for row in self.candidates(ms, sname, 'none'):
                    if self.eval_guard(ms, row.get('guard'), 'none'):
                        result.add(self.exec_row(ms, r_, row, 'none'))
                        break
                    else:
                        result.add(REJECTED)
            except ModelThrow:
                self.tok('xc:%s/none' % ms.m['name'])
                self.callback(ms, False)
                result = set()
        finally:
            ms.processing = False
        return result

    # ------------------------------------------------------------------ API
    def api_process(self, ms, ev):
        if self.dialect == 'back':
            return self.back_process_event(ms, ev, {'D'})
        return self.mp11_process_event(ms, ev, 'direct')

    def api_enqueue(self, ms, ev):
        if self.dialect == 'back':
            ms.queue.append((ev, {'Q'}))
        else:
            ms.pool.append(dict(k='e', ev=ev, seq=(ms.seq - 1) & 0xFFFF, deleted=False))

    def begin_op(self, val, scripts):
        self.val = val
        self.ordinal = 0
        self.scripts = scripts or {}

    def ids(self):
        out = []

        def rec(ms):
            out.append('%s=%s' % (ms.m['name'], ','.join(ms.active)))
            for s in S.state_order(ms.m):
                if s in ms.subs:
                    rec(ms.subs[s])
        rec(self.root)
        return 'ids{' + ';'.join(out) + ';}'

    def op_start(self, val=0, scripts=None):
        self.begin_op(val, scripts)
        self.tok('[S')
        ms = self.root
        try:
            if self.dialect == 'mp11':
                if not ms.running:
                    self.enter_machine_root_mp11(ms)
            else:
                ms.active = [reg[0] for reg in ms.m['regions']]
                ms.running = True
                ms.processing = True
                try:
                    self.tok('en:%s/?' % ms.m['name'])
                    self.callback(ms)
                    for r_ in range(len(ms.m['regions'])):
                        self.do_entry_state(ms, r_, ms.active[r_], None)
                finally:
                    ms.processing = False
                if ms.has_completion:
                    self.back_process_event(ms, 'none', {'D'})
                self.back_message_queue(ms)
        except ModelThrow:
            self.tok('ESCAPED:scripted')
        self.tok(']')
        self.tok(self.ids())

    def enter_machine_root_mp11(self, ms):
        ms.running = True
        ms.processing = True
        self.tok('en:%s/?' % ms.m['name'])
        self.callback(ms)
        h = ms.m.get('history', 'none')
        if h == 'always':
            ms.active = list(ms.hist)
        else:
            ms.active = [reg[0] for reg in ms.m['regions']]
            ms.pool = []
        for r_ in range(len(ms.m['regions'])):
            self.do_entry_state(ms, r_, ms.active[r_], None)
        ms.processing = False
        self.mp11_process_pool(ms)

    def op_stop(self, val=0, scripts=None):
        self.begin_op(val, scripts)
        self.tok('[T')
        ms = self.root
        if self.dialect == 'back' or ms.running:
            for r_ in range(len(ms.m['regions'])):
                self.do_exit_state(ms, ms.active[r_], None)
            self.tok('ex:%s/?' % ms.m['name'])
            self.callback(ms)
            ms.hist = list(ms.active)
            ms.running = False
        self.tok(']')
        self.tok(self.ids())

    def op_process(self, evi, payload, val, scripts=None):
        self.begin_op(val, scripts)
        ev = (self.spec['events'][evi]['name'], payload)
        self.tok('[P%d#%d' % (evi, payload))
        res = self.api_process(self.root, ev)
        cls = 'H' if TAKEN in res else ('Z' if not res else 'N')
        self.tok(']=' + cls)
        self.tok(self.ids())

    def op_enqueue(self, evi, payload):
        ev = (self.spec['events'][evi]['name'], payload)
        self.tok('[Q%d#%d' % (evi, payload))
        self.api_enqueue(self.root, ev)
        self.tok(']')
        self.tok(self.ids())

    def op_exec(self, mode, val=0, scripts=None):
        self.begin_op(val, scripts)
        self.tok('[X' + mode)
        ms = self.root
        if self.dialect == 'back':
            if mode == 'a':
                self.back_message_queue(ms)
            elif ms.queue:
                ev, src = ms.queue.pop(0)
                self.back_process_event(ms, ev, src)
            else:
                self.tok('skip')
        else:
            self.mp11_process_pool(ms, None if mode == 'a' else 1)
        self.tok(']')
        self.tok(self.ids())

    def pending(self):
        ms = self.root
        if self.dialect == 'back':
            return len(ms.queue) + len(ms.deferred)
        return len(ms.pool)

    def active_flags(self, ms):
        """flags carried by the configuration reported as active (recursively through reported submachine states)"""
        out = set()
        for s in ms.active:
            st = ms.m['states'][s]
            if st['kind'] == 'sub':
                out |= set(st['machine'].get('as_state', {}).get('flags') or [])
                out |= self.active_flags(ms.subs[s])
            else:
                out |= set(st.get('flags') or [])
        return out

    def probe_inside(self):
        body = self.ids()[4:-1]
        fl = self.active_flags(self.root)
        for f in self.spec.get('flags', []):
            body += '%s=%d;' % (f, 1 if f in fl else 0)
        return body
