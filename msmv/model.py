"""Reference interpreter of the semantics the properties state (DESIGN.md Appendix A).
Independent of MSM: works on the spec data only and produces the same token trace format as the SUT.

Only rules that a property or the documentation states are implemented; aspects on which they are silent are
handled by the oracles through projections, not here."""
from . import spec as S

TAKEN, REJECTED, DEFERRED = 'T', 'R', 'D'


class ModelThrow(Exception):
    pass


class MState:
    """run-time state of one machine object"""

    def __init__(self, m, parent=None, name_in_parent=None):
        self.m = m
        self.parent = parent
        self.active = [reg[0] for reg in m['regions']]
        self.hist = [reg[0] for reg in m['regions']]
        self.subs = {}
        for s, st in m['states'].items():
            if st['kind'] == 'sub':
                self.subs[s] = MState(st['machine'], self, s)
        self.queue = []          # message queue (pending occurrences), oldest first
        self.deferred = []       # deferred occurrences
        self.processing = False
        self.running = False
        self.frozen = {}

    def clone(self, parent=None):
        c = MState.__new__(MState)
        c.m = self.m
        c.parent = parent
        c.active = list(self.active)
        c.hist = list(self.hist)
        c.subs = {k: v.clone(c) for k, v in self.subs.items()}
        c.queue = list(self.queue)
        c.deferred = list(self.deferred)
        c.processing = False
        c.running = self.running
        c.frozen = dict(self.frozen)
        return c


class Model:
    def __init__(self, spec, dialect='back'):
        self.spec = spec
        self.dialect = dialect     # 'back' (back, back11) | 'mp11'
        self.root = MState(spec['root'])
        self.trace = []
        self.val = 0
        self.frozen = 0
        self.ordinal = 0
        self.scripts = {}
        self.fired = 0
        self.cg = S.completion_guard_atoms(spec)      # atom -> source state
        self.freeze_by_state = {}
        for a, src in self.cg.items():
            self.freeze_by_state.setdefault(src, []).append(a)
        self.evidx = {e['name']: i for i, e in enumerate(spec['events'])}
        self.kleene = {e['name'] for e in spec['events'] if e.get('kleene')}
        self.counters = {}

    # ------------------------------------------------------------------ utilities
    def count(self, k, n=1):
        self.counters[k] = self.counters.get(k, 0) + n

    def tok(self, t):
        self.trace.append(t)

    def evdesc(self, ev):
        if ev is None:
            return '?'
        if ev == 'none':
            return 'none'
        return '%s#%d' % (ev[0], ev[1])

    def callback(self, ms):
        """script hook after every behaviour (same ordinal scheme as rt.hpp)"""
        k = self.ordinal
        self.ordinal += 1
        for sc in self.scripts.get(k, ()):
            self.fired += 1
            if sc[0] == 't':
                self.tok('!throw')
                raise ModelThrow()
            elif sc[0] == 'p':
                _, evi, payload, how = sc
                self.tok('!sub%s:%d#%d' % (how, evi, payload))
                ev = (self.spec['events'][evi]['name'], payload)
                target = self.root if how in ('r', 'Q') else ms
                if how in ('f', 'r'):
                    self.process_event(target, ev)
                else:
                    target.queue.append(ev)
                self.tok('!ret')
            elif sc[0] == 'b':
                self.tok('pb{%s}' % self.probe_inside())

    def atom_value(self, n):
        if n in self.cg:
            return (self.frozen >> n) & 1
        return (self.val >> n) & 1

    def eval_guard(self, ms, g, ev):
        if g is None:
            return True
        k = g[0]
        if k == 'g':
            v = self.atom_value(g[1])
            self.tok('g%d=%d/%s' % (g[1], v, self.evdesc(ev)))
            self.callback(ms)
            return bool(v)
        if k == 'not':
            return not self.eval_guard(ms, g[1], ev)
        if k == 'and':
            return self.eval_guard(ms, g[1], ev) and self.eval_guard(ms, g[2], ev)
        if k == 'or':
            return self.eval_guard(ms, g[1], ev) or self.eval_guard(ms, g[2], ev)
        raise ValueError(g)

    def matches(self, trigger, ev):
        """does a row trigger match the event occurrence?"""
        if ev == 'none':
            return trigger is None
        if trigger is None:
            return False
        if trigger in self.kleene:
            return True
        return trigger in S.event_bases(self.spec, ev[0])

    # ------------------------------------------------------------------ entry / exit
    def do_entry_state(self, ms, sname, ev, how=None):
        """enter state sname of machine ms. how: None | ('direct', [states]) | ('entry_pt', pt)"""
        st = ms.m['states'][sname]
        if st['kind'] == 'sub':
            sub = ms.subs[sname]
            self.enter_machine(sub, ev, how)
        else:
            self.state_entry(ms, sname, ev)

    def state_entry(self, ms, sname, ev):
        for a in self.freeze_by_state.get(sname, ()):
            self.frozen = (self.frozen & ~(1 << a)) | (self.val & (1 << a))
        self.tok('en:%s/%s' % (sname, self.evdesc(ev)))
        self.callback(ms)

    def enter_machine(self, sub, ev, how):
        m = sub.m
        self.tok('en:%s/%s' % (m['name'], self.evdesc(ev)))
        self.callback(sub.parent if sub.parent is not None else sub)
        # history
        h = m.get('history', 'none')
        if h == 'none':
            sub.active = [reg[0] for reg in m['regions']]
        elif h == 'always':
            sub.active = list(sub.hist)
        else:
            evname = ev[0] if isinstance(ev, tuple) else None
            if evname in h['shallow']:
                sub.active = list(sub.hist)
            else:
                sub.active = [reg[0] for reg in m['regions']]
        named = {}
        if how is not None:
            if how[0] == 'direct':
                for t in how[1]:
                    named[m['states'][t]['region']] = t
            elif how[0] == 'entry_pt':
                named[m['states'][how[1]]['region']] = how[1]
        for r_, t in named.items():
            sub.active[r_] = t
        sub.running = True
        for r_ in range(len(m['regions'])):
            self.do_entry_state(sub, sub.active[r_], ev)
        if how is not None and how[0] == 'entry_pt':
            # the pseudo state immediately continues with the inner transition on the same event
            self.entry_pt_continue(sub, how[1], ev)

    def entry_pt_continue(self, sub, pt, ev):
        r_ = sub.m['states'][pt]['region']
        for row in reversed(sub.m['table']):
            if row['src'] == pt and self.matches(row['ev'], ev):
                if self.eval_guard(sub, row.get('guard'), ev):
                    self.exec_row(sub, r_, row, ev)
                    break

    def do_exit_state(self, ms, sname, ev):
        st = ms.m['states'][sname]
        if st['kind'] == 'sub':
            sub = ms.subs[sname]
            for r_ in range(len(sub.m['regions'])):
                self.do_exit_state(sub, sub.active[r_], ev)
            self.tok('ex:%s/%s' % (sname, self.evdesc(ev)))
            self.callback(ms)
            sub.hist = list(sub.active)
            sub.running = False
        else:
            self.tok('ex:%s/%s' % (sname, self.evdesc(ev)))
            self.callback(ms)

    # ------------------------------------------------------------------ rows
    def exec_row(self, ms, r_, row, ev):
        """guard already evaluated true"""
        tgt = row.get('tgt')
        acts = row.get('actions') or []
        if acts == 'defer':
            self.defer(ms, ev)
            return DEFERRED
        if tgt is None:
            for a in acts:
                self.tok('a%d/%s' % (a, self.evdesc(ev)))
                self.callback(ms)
            return TAKEN
        src = row['src']
        srcname = src if isinstance(src, str) else src['exit_pt'][0]
        self.do_exit_state(ms, srcname, ev)
        for a in acts:
            self.tok('a%d/%s' % (a, self.evdesc(ev)))
            self.callback(ms)
        if isinstance(tgt, str):
            tname, how = tgt, None
        elif 'direct' in tgt:
            tname, how = tgt['direct'][0], ('direct', tgt['direct'][1])
        else:
            tname, how = tgt['entry_pt'][0], ('entry_pt', tgt['entry_pt'][1])
        self.do_entry_state(ms, tname, ev, how)
        ms.active[r_] = tname
        tst = ms.m['states'][tname]
        if tst['kind'] == 'exit_pt':
            # hand the converted event to the enclosing machine
            self.forward_exit(ms, tname, ev)
        return TAKEN

    def forward_exit(self, ms, pt, ev):
        fwd = ms.m['states'][pt]['event']
        nev = (fwd, ev[1] if isinstance(ev, tuple) else 0)
        target = ms.parent if self.dialect == 'back' else self.root
        self.process_event(target, nev)

    def defer(self, ms, ev):
        ms.deferred.append(ev)

    # ------------------------------------------------------------------ dispatch
    def candidates(self, ms, sname, ev):
        m = ms.m
        st = m['states'][sname]
        out = []
        if st['kind'] != 'sub':
            for row in reversed(st.get('internal', [])):
                if self.matches(row['ev'], ev):
                    out.append(dict(row, src=sname, tgt=None))
        for row in reversed(m['table']):
            src = row['src']
            if isinstance(src, str):
                if src != sname:
                    continue
            else:
                sub, pt = src['exit_pt']
                if sub != sname:
                    continue
                if pt not in ms.subs[sub].active:
                    continue
            if self.matches(row['ev'], ev):
                out.append(row)
        return out

    def blocked(self, ms, ev):
        m = ms.m
        term = False
        intr = False
        end = False
        for r_, s in enumerate(ms.active):
            st = m['states'][s]
            if st['kind'] == 'terminate':
                term = True
            if st['kind'] == 'interrupt':
                intr = True
                if isinstance(ev, tuple) and any(b in st['end_events'] for b in S.event_bases(self.spec, ev[0])):
                    end = True
        if term:
            return True
        if intr and not end:
            return True
        return False

    def state_defers(self, ms, sname, ev):
        if not isinstance(ev, tuple):
            return False
        st = ms.m['states'][sname]
        d = st.get('deferred') or []
        if st['kind'] == 'sub':
            d = st['machine'].get('as_state', {}).get('deferred') or []
        return any(b in d for b in S.event_bases(self.spec, ev[0]))

    def step(self, ms, ev, direct):
        """one run-to-completion step of machine ms for event occurrence ev. Returns set of result marks."""
        m = ms.m
        result = set()
        for r_ in range(len(m['regions'])):
            sname = ms.active[r_]
            st = m['states'][sname]
            rr = set()
            if st['kind'] == 'sub':
                rr = self.step_sub(ms.subs[sname], ev)
            if TAKEN not in rr and DEFERRED not in rr:
                cands = self.candidates(ms, sname, ev)
                if not cands and self.state_defers(ms, sname, ev):
                    self.defer(ms, ev)
                    rr.add(DEFERRED)
                for row in cands:
                    if self.eval_guard(ms, row.get('guard'), ev):
                        rr.add(self.exec_row(ms, r_, row, ev))
                        break
                    else:
                        rr.add(REJECTED)
            result |= rr
        if TAKEN not in result and DEFERRED not in result:
            for row in reversed(m.get('internal', [])):
                if self.matches(row['ev'], ev):
                    if self.eval_guard(ms, row.get('guard'), ev):
                        result.add(self.exec_row(ms, None, dict(row, tgt=None), ev))
                        break
                    else:
                        result.add(REJECTED)
        return result

    def step_sub(self, sub, ev):
        """event forwarded into an active submachine: like process_event_internal on a contained machine"""
        return self.process_event(sub, ev, forwarded=True)

    def process_event(self, ms, ev, forwarded=False):
        """process_event on machine object ms. Returns result set (for the code class)."""
        if not forwarded and ms.processing:
            ms.queue.append(ev)
            return {'Q'}
        if self.blocked(ms, ev):
            return set()
        was = ms.processing
        ms.processing = True
        try:
            try:
                result = self.step(ms, ev, not forwarded)
            except ModelThrow:
                self.tok('xc:%s/%s' % (ms.m['name'], self.evdesc(ev)))
                self.callback(ms)
                result = set()
                thrown = True
            else:
                thrown = False
            if not result and not forwarded and ms.parent is None and not thrown and ev != 'none':
                for r_ in range(len(ms.m['regions'])):
                    self.tok('nt:%s:%s/%s' % (ms.m['name'], ms.active[r_], self.evdesc(ev)))
            if TAKEN in result:
                self.completion(ms)
        finally:
            ms.processing = was
        if not forwarded and not ms.processing:
            self.drain(ms)
        return result

    def drain(self, ms):
        while ms.queue:
            ev = ms.queue.pop(0)
            self.process_event(ms, ev)

    # ------------------------------------------------------------------ completion transitions
    def completion(self, ms):
        """try completion rows of machine ms for the active state of every region (region order), chains included."""
        m = ms.m
        if not any(r['ev'] is None for r in m['table']):
            return
        progress = True
        while progress:
            progress = False
            for r_ in range(len(m['regions'])):
                sname = ms.active[r_]
                cands = self.candidates(ms, sname, 'none')
                for row in cands:
                    if self.eval_guard(ms, row.get('guard'), 'none'):
                        self.exec_row(ms, r_, row, 'none')
                        progress = True
                        break
            # back: re-tries after every handled event (a taken completion transition is one)

    # ------------------------------------------------------------------ API
    def begin_op(self, val, scripts):
        self.val = val
        self.ordinal = 0
        self.scripts = scripts or {}

    def ids(self):
        out = []

        def rec(ms):
            out.append('%s=%s' % (ms.m['name'], ','.join(ms.active)))
            for s in S.state_order(ms.m):
                if s in ms.subs:
                    rec(ms.subs[s])
        rec(self.root)
        return 'ids{' + ';'.join(out) + ';}'

    def op_start(self, val=0, scripts=None):
        self.begin_op(val, scripts)
        self.tok('[S')
        ms = self.root
        ms.processing = True
        ms.running = True
        self.tok('en:%s/?' % ms.m['name'])
        self.callback(ms)
        ms.active = [reg[0] for reg in ms.m['regions']]
        for r_ in range(len(ms.m['regions'])):
            self.do_entry_state(ms, ms.active[r_], None)
        self.completion(ms)
        ms.processing = False
        self.drain(ms)
        self.tok(']')
        self.tok(self.ids())

    def op_stop(self, val=0, scripts=None):
        self.begin_op(val, scripts)
        self.tok('[T')
        ms = self.root
        for r_ in range(len(ms.m['regions'])):
            self.do_exit_state(ms, ms.active[r_], None)
        self.tok('ex:%s/?' % ms.m['name'])
        self.callback(ms)
        ms.running = False
        self.tok(']')
        self.tok(self.ids())

    def op_process(self, evi, payload, val, scripts=None):
        self.begin_op(val, scripts)
        ev = (self.spec['events'][evi]['name'], payload)
        self.tok('[P%d#%d' % (evi, payload))
        res = self.process_event(self.root, ev)
        cls = 'H' if TAKEN in res else ('Z' if not res else 'N')
        self.tok(']=' + cls)
        self.tok(self.ids())

    def probe_inside(self):
        return ''
