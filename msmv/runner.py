"""Check orchestration: plan -> specs -> build -> generated-case search -> replay confirmation -> evidence."""
import os, sys, json, time, hashlib, glob
from concurrent.futures import ProcessPoolExecutor
from . import specgen, emit, build, engine, cases, static as ST, sut as SUT, spec as S, plans

VERIF = build.VERIF
# the two overrides exist for sensitivity runs against scratch trees (seeded defects, the pinned tree): those runs must not
# replace the evidence of the registered checks
EVID = os.environ.get('VERIF_EVIDENCE_DIR', os.path.join(VERIF, 'evidence'))
REPLAYS_NEW = os.environ.get('VERIF_REPLAYS_NEW', os.path.join(VERIF, 'replays', 'new'))
KNOWN = os.path.join(VERIF, 'KNOWN_FINDINGS.txt')


def get_seed():
    try:
        s = int(os.environ.get('VERIF_SEED', '1'))
    except ValueError:
        s = 1
    return s if s != 0 else 1


def load_known(prop):
    known, fixed = [], []
    if os.path.exists(KNOWN):
        for line in open(KNOWN):
            line = line.strip()
            if not line or line.startswith('#'):
                continue
            if line.startswith('known:'):
                head, _, text = line[6:].partition('::')
                kv = dict(x.split('=', 1) for x in head.split())
                if kv.get('property') == prop:
                    known.append(dict(sig=kv['sig'], witness=kv.get('witness'), text=text.strip()))
            elif line.startswith('fixed:'):
                fixed.append(line)
    return known, fixed


def curated_specs(names):
    out = []
    for n in names:
        p = os.path.join(VERIF, 'specs', n + '.json')
        sp = json.load(open(p))
        sp.setdefault('id', S.spec_hash(sp))
        out.append(sp)
    return out


def configs_for(spec, wanted):
    """configurations that can express the spec (compile-time notion, see DESIGN 2.2)"""
    out = []
    for c in wanted:
        if c == 4 and spec.get('features', {}).get('sm_internal'):
            continue      # back11 does not compile a machine-level internal_transition_table
        if c in spec.get('features', {}).get('exclude_cfgs', ()):
            continue
        out.append(c)
    return out


def plan_specs(plan, tier, seed):
    specs = []
    specs += curated_specs(plan.get('curated', []))
    mult = 1 if tier == 'quick' else plan.get('thorough_mult', 3)
    for prof, n in plan['profiles']:
        for i in range(n * mult):
            specs.append(specgen.gen_spec(prof, seed, i))
    # de-duplicate by id
    seen = set()
    out = []
    for sp in specs:
        if sp['id'] not in seen:
            seen.add(sp['id'])
            out.append(sp)
    return out


def build_jobs(prop, plan, tier, seed, known_sigs):
    specs = plan_specs(plan, tier, seed)
    todo = []
    for sp in specs:
        cpp = emit.emit_cpp(sp)
        for c in configs_for(sp, plan['configs']):
            todo.append((sp, c, cpp))
    flavor = plan.get('flavor', 'plain')
    libs = tuple(plan.get('libs', ()))
    res = build.build_many([(cpp, c, flavor, (), libs) for (sp, c, cpp) in todo])
    jobs, failed = [], []
    nex = plan['examples'][0 if tier == 'quick' else 1]
    if plan.get('multi'):
        by_spec = {}
        for (sp, c, cpp), (b, log) in zip(todo, res):
            if not b:
                failed.append(dict(spec=sp['id'], cfg=c, log=log[-1500:]))
                continue
            by_spec.setdefault(sp['id'], (sp, {}))[1][c] = b
        for sid, (sp, bins) in by_spec.items():
            if len(bins) >= 2:
                jobs.append(dict(spec=sp, cfg=sorted(bins)[0], bins=bins, prop=prop, oracle=plan['oracle'], cp=plan['cp'], max_examples=nex,
                                 seed=seed, known_sigs=tuple(known_sigs), env=plan.get('env'), tier=tier))
        return specs, jobs, failed
    for (sp, c, cpp), (b, log) in zip(todo, res):
        if not b:
            failed.append(dict(spec=sp['id'], cfg=c, log=log[-1500:]))
            continue
        jobs.append(dict(spec=sp, cfg=c, bin=b, prop=prop, oracle=plan['oracle'], cp=(dict(plan['cp'], **plan.get('cp_mp11', {})) if c >= 5 else plan['cp']), max_examples=nex,
                         seed=seed, known_sigs=tuple(known_sigs), env=plan.get('env'), tier=tier, mode=plan.get('mode'),
                         keep_cases=plan.get('keep_cases', 0)))
    return specs, jobs, failed


def replay_failure(prop, plan, spec, cfg, concrete, times=3, fault=None):
    """re-run a concrete case through the plain path (no Hypothesis); returns list of failure messages (None = passed)."""
    from . import oracles
    if plan.get('multi'):
        return replay_failure_multi(prop, plan, spec, concrete, times)
    cpp = emit.emit_cpp(spec)
    b, log = build.build_one(cpp, cfg, plan.get('flavor', 'plain'), (), tuple(plan.get('libs', ())))
    if not b:
        return ['build failed'] * times, None
    static = ST.Static(spec)
    out = []
    sig = None
    for _ in range(times):
        s = SUT.Sut(b, env=plan.get('env'))
        try:
            ex = engine.Exec(spec, static, s, auto_probe=plan['cp'].get('auto_probe', False))
            try:
                per_op = ex.replay(concrete)
            except (SUT.SutCrash, SUT.SutHang) as e:
                out.append('SUT crashed rc=%s %s' % (e.rc, (e.err or '')[-300:]))
                e.cfg = cfg
                sig = engine.crash_sig(e, concrete)
                continue
            ctx = oracles.Ctx(spec, static, cfg, concrete, per_op, dict(prop=prop, tier='replay', idmap=s.idmap))
            try:
                if plan.get('mode') in ('copy', 'serial'):
                    ctx.extra = engine.copy_refs(ex, concrete, per_op)
                elif plan.get('mode') == 'fault_enum' and fault:
                    ctx.extra = dict(fault_index=fault['fault_index'], k=fault['k'],
                                     baseline=engine.fault_baseline(ex, concrete, fault['fault_index'], fault['k']))
            except (SUT.SutCrash, SUT.SutHang) as e:
                out.append('SUT crashed rc=%s' % e.rc)
                continue
            try:
                getattr(oracles, plan['oracle'])(ctx)
                out.append(None)
            except engine.Violation as v:
                out.append(v.msg)
                sig = v.sig
        finally:
            s.close()
    return out, sig


def save_replay(prop, spec, cfg, fail):
    os.makedirs(REPLAYS_NEW, exist_ok=True)
    body = dict(property=prop, spec=spec, cfg=cfg, cfg_name=build.CONFIGS[cfg], case=fail['case'], msg=fail['msg'],
                sig=fail.get('sig'), detail=fail.get('detail'), line=cases.to_line(fail['case']), fault=fail.get('fault'))
    h = hashlib.sha256(json.dumps(body, sort_keys=True, default=str).encode()).hexdigest()[:10]
    p = os.path.join(REPLAYS_NEW, '%s_%s_%s.json' % (prop, build.CONFIGS[cfg], h))
    json.dump(body, open(p, 'w'), indent=1, default=str)
    return p


def run_check(prop, tier):
    t0 = time.time()
    seed = get_seed()
    plan = plans.PLANS[prop]
    if plan.get('custom'):
        return globals()[plan['custom']](prop, tier, seed)
    known, fixed = load_known(prop)
    known_sigs = [k['sig'] for k in known]
    specs, jobs, failed_builds = build_jobs(prop, plan, tier, seed, known_sigs)
    workers = int(os.environ.get('VERIF_JOBS', '16'))
    results = []
    with ProcessPoolExecutor(max_workers=workers) as ex:
        for r in ex.map(engine.run_job_multi if plan.get('multi') else engine.run_job, jobs):
            results.append(r)
    # aggregate
    evaluations = sum(r['evaluations'] for r in results)
    nontriv = set()
    classes = {}
    samples = []
    errors = []
    violations = []
    for job, r in zip(jobs, results):
        nontriv.update(r['nontrivial'])
        for k, n in r['classes'].items():
            classes[k] = classes.get(k, 0) + n
        for s in r['samples'][:1]:
            if len(samples) < 6:
                samples.append(dict(spec=r['spec'], cfg=build.CONFIGS[r['cfg']], case=s))
        if r.get('error'):
            errors.append(dict(spec=r['spec'], cfg=r['cfg'], error=r['error']))
        if r.get('failure'):
            violations.append((job, r['failure']))
    rc = 0
    out_lines = []
    confirmed = 0
    # known findings: replay each witness; it must still fail with its signature
    for k in known:
        wit = os.path.join(VERIF, k['witness']) if k.get('witness') else None
        if wit and os.path.exists(wit):
            w = json.load(open(wit))
            msgs, sig = replay_failure(prop, plan, w['spec'], w['cfg'], w['case'], times=1, fault=w.get('fault'))
            if msgs[0] is not None and sig == k['sig']:
                out_lines.append('KNOWN-FINDING: property=%s %s' % (prop, k['text']))
            elif msgs[0] is None:
                out_lines.append('NOTE: known finding %s no longer reproduces on this tree' % k['sig'])
    # committed regression replays for this property
    reg_total = reg_fail = 0
    for p in sorted(glob.glob(os.path.join(VERIF, 'replays', prop + '_*.json'))):
        w = json.load(open(p))
        if w.get('sig') in known_sigs:
            continue
        reg_total += 1
        msgs, sig = replay_failure(prop, plan, w['spec'], w['cfg'], w['case'], times=1, fault=w.get('fault'))
        if msgs[0] is not None and sig not in known_sigs:
            msgs3, sig3 = replay_failure(prop, plan, w['spec'], w['cfg'], w['case'], times=3, fault=w.get('fault'))
            if all(m is not None for m in msgs3):
                reg_fail += 1
                out_lines.append('VIOLATION property=%s replay=%s' % (prop, p))
                out_lines.append('  ' + msgs3[0])
                rc = 1
    # directed cases on curated specs (shapes a generator cannot reach, e.g. counter boundaries)
    directed_n = 0
    for (spec_name, lines) in plan.get('directed', []):
        sp = curated_specs([spec_name])[0]
        for cfg in configs_for(sp, plan['configs']):
            for line in lines:
                case = cases.parse_line(line)
                directed_n += 1
                msgs, sig = replay_failure(prop, plan, sp, cfg, case, times=1)
                if msgs[0] is None or sig in known_sigs:
                    continue
                msgs3, sig3 = replay_failure(prop, plan, sp, cfg, case, times=3)
                if all(m is not None for m in msgs3):
                    p = save_replay(prop, sp, cfg, dict(case=case, msg=msgs3[0], sig=sig3))
                    out_lines.append('VIOLATION property=%s replay=%s' % (prop, p))
                    out_lines.append('  cfg=%s directed case %s: %s' % (build.CONFIGS[cfg], line, msgs3[0]))
                    rc = 1
                    confirmed += 1
    for job, f in violations:
        if f.get('abstract'):
            # crash while running an abstract case: no concrete case to replay
            p = save_replay(prop, job['spec'], job['cfg'], dict(case=[], msg=f['msg'], sig=f.get('sig'), detail=dict(abstract=f['case'])))
            out_lines.append('VIOLATION property=%s replay=%s' % (prop, p))
            out_lines.append('  ' + f['msg'][:400])
            rc = 1
            confirmed += 1
            continue
        msgs, sig = replay_failure(prop, plan, job['spec'], job['cfg'], f['case'], times=3, fault=f.get('fault'))
        if all(m is not None for m in msgs):
            p = save_replay(prop, job['spec'], job['cfg'], f)
            out_lines.append('VIOLATION property=%s replay=%s' % (prop, p))
            out_lines.append('  cfg=%s spec=%s: %s' % (build.CONFIGS[job['cfg']], job['spec']['id'], f['msg']))
            rc = 1
            confirmed += 1
        else:
            errors.append(dict(spec=job['spec']['id'], cfg=job['cfg'], error='flaky failure (replayed %s): %s' % (msgs, f['msg'])))
    post_cov = {}
    if plan.get('post') and rc == 0:
        post_lines, post_rc, post_cov = globals()[plan['post']](prop, plan, tier, jobs, results)
        out_lines += post_lines
        if post_rc:
            rc = 1
            confirmed += post_rc
    floor = plan.get('floor', (50, 200))[0 if tier == 'quick' else 1]
    harness_error = False
    if errors:
        harness_error = True
    if len(nontriv) < floor and rc == 0:
        harness_error = True
        errors.append(dict(error='explored only %d distinct non-trivial cases (floor %d)' % (len(nontriv), floor)))
    ev = dict(property_id=prop, tier=tier, seed=seed, level=plan.get('level', 'exploration'),
              coverage=dict(evaluations=evaluations, distinct_nontrivial=len(nontriv), rule=plan['rule'], samples=samples or ['(none)'],
                            specs=len(specs), spec_ids=[s['id'] for s in specs][:40], profiles=[p for p, _ in plan['profiles']],
                            curated=plan.get('curated', []),
                            configurations=sorted({build.CONFIGS[j['cfg']] for j in jobs}),
                            binaries=len(jobs), configs_not_compiling=[dict(spec=f['spec'], cfg=build.CONFIGS[f['cfg']]) for f in failed_builds],
                            classes=classes, regression_replays=reg_total, directed_cases=directed_n, known_findings=[k['sig'] for k in known],
                            harness_errors=errors[:10], engine='hypothesis %s (seeded, database=None)' % __import__('hypothesis').__version__,
                            examples_per_binary=plan['examples'][0 if tier == 'quick' else 1], **post_cov),
              assumptions=plan.get('assumptions', []), wall_s=round(time.time() - t0, 2), violations=confirmed + reg_fail)
    os.makedirs(EVID, exist_ok=True)
    json.dump(ev, open(os.path.join(EVID, prop + '.json'), 'w'), indent=1, default=str)
    for l in out_lines:
        print(l)
    print('%s %s: specs=%d binaries=%d evaluations=%d distinct_nontrivial=%d violations=%d wall=%.0fs' %
          (prop, tier, len(specs), len(jobs), evaluations, len(nontriv), confirmed + reg_fail, time.time() - t0))
    if failed_builds:
        print('  note: %d (spec,config) pairs did not compile (recorded in evidence)' % len(failed_builds))
    if rc == 0 and harness_error:
        for e in errors[:5]:
            print('HARNESS-ERROR:', json.dumps(e)[:1500])
        return 2
    return rc


def c12_uninit(prop, plan, tier, jobs, results):
    """'no dependence on indeterminate values': the kept fault cases are replayed (a) on two extra builds that fill
    automatic variables with zero / with a pattern - every observable output must coincide - and (b) under valgrind."""
    import subprocess
    lines, bad = [], 0
    cfgs = plan.get('uninit_cfgs', (1, 5, 7)) if tier == 'quick' else plan['configs']
    sel = [(j, r) for j, r in zip(jobs, results) if j['cfg'] in cfgs and r.get('kept')]
    todo = []
    for j, r in sel:
        cpp = emit.emit_cpp(j['spec'])
        for fl in ('zero', 'pattern', 'vg'):
            todo.append((cpp, j['cfg'], fl, (), ()))
    built = build.build_many(todo)
    diff_cases = vg_cases = 0
    k = 0
    for j, r in sel:
        bz, bp, bv = built[k][0], built[k + 1][0], built[k + 2][0]
        k += 3
        if not (bz and bp and bv):
            continue
        inputs = ['R ' + cases.to_line(c) for c in r['kept']]
        outs = []
        for b in (bz, bp):
            p = subprocess.run([b], input='\n'.join(inputs) + '\nquit\n', capture_output=True, text=True, timeout=300)
            outs.append(p.stdout.split('\n')[1:])
        for n, (a, b) in enumerate(zip(outs[0], outs[1])):
            if n >= len(inputs):
                break
            diff_cases += 1
            if a != b:
                f = dict(case=r['kept'][n], msg='C12: observable output depends on the initial value of automatic variables (zero-filled vs pattern-filled build differ): %s | %s' % (a[-300:], b[-300:]), sig='uninit_diff')
                pth = save_replay(prop, j['spec'], j['cfg'], f)
                lines.append('VIOLATION property=%s replay=%s' % (prop, pth))
                lines.append('  ' + f['msg'][:600])
                bad += 1
                break
        nvg = len(inputs) if tier == 'thorough' else min(3, len(inputs))
        for n in range(nvg):
            p = subprocess.run(['valgrind', '-q', '--error-exitcode=99', bv], input=inputs[n] + '\nquit\n', capture_output=True, text=True, timeout=600)
            vg_cases += 1
            if p.returncode == 99 or 'uninitialised' in p.stderr:
                where = [l for l in p.stderr.split('\n') if 'boost/msm' in l][:3]
                f = dict(case=r['kept'][n], msg='C12: valgrind reports use of uninitialised data: %s %s' % (p.stderr.split('\n')[0][:200], ' | '.join(where)[:500]), sig='uninit_valgrind')
                pth = save_replay(prop, j['spec'], j['cfg'], f)
                lines.append('VIOLATION property=%s replay=%s' % (prop, pth))
                lines.append('  ' + f['msg'][:700])
                bad += 1
                break
    return lines, bad, dict(uninit=dict(zero_vs_pattern_cases=diff_cases, valgrind_cases=vg_cases, configurations=[build.CONFIGS[c] for c in cfgs]))


def replay_failure_multi(prop, plan, spec, concrete, times=3):
    from . import oracles
    cpp = emit.emit_cpp(spec)
    cfgs = configs_for(spec, plan['configs'])
    built = build.build_many([(cpp, c, plan.get('flavor', 'plain'), (), tuple(plan.get('libs', ()))) for c in cfgs])
    bins = {c: b for c, (b, log) in zip(cfgs, built) if b}
    static = ST.Static(spec)
    out, sig = [], None
    for _ in range(times):
        suts = {c: SUT.Sut(b, env=plan.get('env')) for c, b in bins.items()}
        try:
            runs = {}
            try:
                for c in sorted(bins):
                    runs[c] = engine.Exec(spec, static, suts[c], auto_probe=plan['cp'].get('auto_probe', False)).replay(concrete)
            except (SUT.SutCrash, SUT.SutHang) as e:
                out.append('SUT crashed rc=%s %s' % (e.rc, (e.err or '')[-300:]))
                sig = engine.crash_sig(e, concrete)
                continue
            base = sorted(bins)[0]
            ctx = oracles.Ctx(spec, static, base, concrete, runs[base], dict(prop=prop, tier='replay'))
            ctx.runs = runs
            try:
                getattr(oracles, plan['oracle'])(ctx)
                out.append(None)
            except engine.Violation as v:
                out.append(v.msg)
                sig = v.sig
        finally:
            for s_ in suts.values():
                s_.close()
    return out, sig


# ------------------------------------------------------------------------------------------------ C14 (three sub-checks)
def c14_run(prop, tier, seed):
    import subprocess, shutil
    from . import emit_fe, pumlguard, oracles
    t0 = time.time()
    plan = plans.PLANS[prop]
    quick = tier == 'quick'
    lines, violations = [], 0
    known, fixed = load_known(prop)
    known_sigs = [k['sig'] for k in known]
    # ---- A. front-end differential --------------------------------------------------------------
    specsA = [specgen.gen_spec('frontlang', seed, i) for i in range(3 if quick else 8)]
    specsB = [specgen.gen_spec('frontlang2', seed, i) for i in range(2 if quick else 5)]
    todo = []
    for sp in specsA:
        for cfg in (1, 4, 5) if quick else (1, 2, 4, 5, 7):
            todo.append((sp, 0 * 10 + cfg, emit.emit_cpp(sp), cfg, ()))
            todo.append((sp, 1 * 10 + cfg, emit_fe.emit_basic(sp), cfg, ()))
            todo.append((sp, 2 * 10 + cfg, emit_fe.emit_puml(sp, 0), cfg, ('-std=gnu++20',)))
            todo.append((sp, 3 * 10 + cfg, emit_fe.emit_puml(sp, 1 + (seed % 3)), cfg, ('-std=gnu++20',)))
            if cfg <= 4:
                todo.append((sp, 4 * 10 + cfg, emit_fe.emit_euml(sp), cfg, ()))       # backmp11 dropped eUML
    for sp in specsB:
        for cfg in (1, 5):
            todo.append((sp, 0 * 10 + cfg, emit.emit_cpp(sp), cfg, ()))
            todo.append((sp, 1 * 10 + cfg, emit_fe.emit_basic(sp), cfg, ()))
    built = build.build_many([(cpp, cfg, 'plain', extra, ()) for (sp, key, cpp, cfg, extra) in todo])
    failed = []
    groups = {}
    for (sp, key, cpp, cfg, extra), (b, log) in zip(todo, built):
        if not b:
            failed.append(dict(spec=sp['id'], variant=oracles.FE_NAMES[key // 10], cfg=build.CONFIGS[cfg], log=log[-600:]))
            continue
        groups.setdefault((sp['id'], cfg), (sp, {}))[1][key] = b
    jobs = []
    nex = 200 if quick else 800
    for (sid, cfg), (sp, bins) in groups.items():
        if len(bins) >= 2:
            jobs.append(dict(spec=sp, cfg=sorted(bins)[0], bins=bins, prop=prop, oracle='C14', cp=dict(max_ops=20, kinds=['P', 'P', 'P', 'P', 'T'], auto_probe=True),
                             max_examples=nex, seed=seed, known_sigs=tuple(known_sigs), tier=tier))
    with ProcessPoolExecutor(max_workers=int(os.environ.get('VERIF_JOBS', '16'))) as ex:
        results = list(ex.map(engine.run_job_multi, jobs))
    evalA = sum(r['evaluations'] for r in results)
    ntA = set()
    classes = {}
    samples = []
    errors = []
    for job, r in zip(jobs, results):
        ntA.update(r['nontrivial'])
        for k, n in r['classes'].items():
            classes[k] = classes.get(k, 0) + n
        if r['samples'] and len(samples) < 3:
            samples.append(dict(part='front-end differential', spec=r['spec'], backend=build.CONFIGS[job['cfg'] % 10], case=r['samples'][0],
                                puml=emit_fe.puml_text(job['spec'], 0).split('\n')[2:8]))
        if r.get('error'):
            errors.append(dict(spec=r['spec'], error=r['error'][-800:]))
        if r.get('failure'):
            f = r['failure']
            p = save_replay(prop, job['spec'], job['cfg'] % 10, dict(case=f['case'], msg=f['msg'], sig=f.get('sig'), detail=dict(f.get('detail') or {}, part='frontend', bins=sorted(job['bins']))))
            lines.append('VIOLATION property=%s replay=%s' % (prop, p))
            lines.append('  ' + f['msg'][:500])
            violations += 1
    # ---- B. PlantUML tokenizer fuzzing (libFuzzer + ASan/UBSan, oracle inside the target) ---------------
    fz_dir = os.path.join(build.BUILD, 'puml_fuzz_' + build.tree_hash()[:16])
    os.makedirs(fz_dir, exist_ok=True)
    fz_bin = os.path.join(fz_dir, 'puml_fuzz')
    tok = dict(docs=0, rows=0, nontrivial_rows=0, distinct_nontrivial=0)
    if not os.path.exists(fz_bin):
        c = subprocess.run(['clang++', '-std=gnu++20', '-g', '-O1', '-fsanitize=fuzzer,address,undefined', '-fno-sanitize-recover=undefined',
                            '-I' + os.path.join(build.REPO, 'include'), os.path.join(build.HARNESS, 'puml_fuzz.cpp'), '-o', fz_bin + '.tmp'],
                           capture_output=True, text=True)
        if c.returncode != 0:
            errors.append(dict(error='puml_fuzz does not build: ' + c.stderr[-1500:]))
        else:
            os.rename(fz_bin + '.tmp', fz_bin)
    sample_doc = None
    if os.path.exists(fz_bin):
        corpus = os.path.join(fz_dir, 'corpus_%d_%s' % (seed, tier))
        shutil.rmtree(corpus, ignore_errors=True)
        os.makedirs(corpus)
        art = REPLAYS_NEW
        os.makedirs(art, exist_ok=True)
        runs = 40000 if quick else 3000000
        nproc = 1 if quick else 8
        procs = []
        for w_ in range(nproc):
            env = dict(os.environ, PUML_FUZZ_STATS=os.path.join(fz_dir, 'stats_%d.json' % w_), PUML_FUZZ_SAMPLE=os.path.join(fz_dir, 'sample_%d.txt' % w_))
            # output goes to a file: with pipes only the process being waited for is drained and the others stall on a full pipe
            outf = os.path.join(fz_dir, 'out_%d_%s_%d.log' % (seed, tier, w_))
            procs.append((subprocess.Popen([fz_bin, '-seed=%d' % (seed * 100 + w_ + 1), '-runs=%d' % (runs // nproc), '-max_len=512', '-artifact_prefix=' + art + '/C14_pumltok_',
                                            '-print_final_stats=0', corpus], env=env, stdout=open(outf, 'w'), stderr=subprocess.STDOUT), outf))
        for w_, (p, outf) in enumerate(procs):
            p.wait()
            out = open(outf, errors='replace').read()[-200000:]
            st_file = os.path.join(fz_dir, 'stats_%d.json' % w_)
            if os.path.exists(st_file):
                try:
                    s_ = json.load(open(st_file))
                    for k in tok:
                        tok[k] += s_.get(k, 0)
                except Exception:
                    pass
            if p.returncode != 0:
                m_ = [l for l in out.split('\n') if 'PUML-ORACLE-FAILURE' in l or 'ERROR: AddressSanitizer' in l or 'runtime error' in l or 'Test unit written to' in l]
                artf = [l.split('written to ')[-1].strip() for l in out.split('\n') if 'Test unit written to' in l and ('crash-' in l or 'leak-' in l)]
                if artf:
                    lines.append('VIOLATION property=%s replay=%s' % (prop, artf[0]))
                    lines.append('  PlantUML tokenizer: ' + ' | '.join(m_)[:600])
                    lines.append('  ' + ' '.join(out[out.find('PUML-ORACLE-FAILURE'):].split('\n')[:12])[:900])
                    violations += 1
                else:
                    errors.append(dict(error='puml_fuzz ended with rc=%s without a crash artifact (inconclusive): %s' % (p.returncode, out[-500:])))
            sf = os.path.join(fz_dir, 'sample_%d.txt' % w_)
            if sample_doc is None and os.path.exists(sf):
                sample_doc = open(sf).read()
        shutil.rmtree(corpus, ignore_errors=True)
    # ---- C. PlantUML guard parser vs the C++ compiler --------------------------------------------
    nexpr = 60 if quick else 600
    chunks = [pumlguard.gen_exprs('%s/%d' % (seed, c), 60) for c in range(nexpr // 60)]
    gdir = os.path.join(build.BUILD, 'pumlguard_' + build.tree_hash()[:16])
    os.makedirs(gdir, exist_ok=True)

    def one_chunk(ci):
        ex_ = chunks[ci]
        src = os.path.join(gdir, 'g_%d_%d.cpp' % (seed, ci))
        binp = os.path.join(gdir, 'g_%d_%d' % (seed, ci))
        open(src, 'w').write(pumlguard.emit_tu(ex_))
        c = subprocess.run(['g++', '-std=gnu++20', '-O0', '-w', '-I' + os.path.join(build.REPO, 'include'), src, '-o', binp], capture_output=True, text=True)
        if c.returncode != 0:
            return ci, None, c.stderr[-1500:]
        r_ = subprocess.run([binp], capture_output=True, text=True, timeout=300)
        return ci, r_.stdout, None
    from concurrent.futures import ThreadPoolExecutor
    gtotal = gnt = 0
    gsamples = []
    with ThreadPoolExecutor(max_workers=8) as tp:
        for ci, out, err in tp.map(one_chunk, range(len(chunks))):
            if out is None:
                errors.append(dict(error='guard TU does not compile (a parsed guard type is ill-formed?): ' + err))
                continue
            for l in out.split('\n'):
                if l.startswith('OK') or l.startswith('FAIL'):
                    k = int(l.split()[1])
                    gtotal += 1
                    if pumlguard.nontrivial(chunks[ci][k]):
                        gnt += 1
                    if len(gsamples) < 3 and pumlguard.nontrivial(chunks[ci][k]):
                        gsamples.append(chunks[ci][k])
                if l.startswith('FAIL'):
                    k = int(l.split()[1])
                    os.makedirs(REPLAYS_NEW, exist_ok=True)
                    p = os.path.join(REPLAYS_NEW, 'C14_pumlguard_%s.json' % hashlib.sha256(chunks[ci][k].encode()).hexdigest()[:10])
                    json.dump(dict(property=prop, kind='pumlguard', expr=chunks[ci][k], result=l), open(p, 'w'), indent=1)
                    lines.append('VIOLATION property=%s replay=%s' % (prop, p))
                    lines.append('  PlantUML guard "%s" is not evaluated like the C++ expression: %s' % (chunks[ci][k], l))
                    violations += 1
    # committed regression replays (guard expressions and tokenizer inputs)
    for p in sorted(glob.glob(os.path.join(VERIF, 'replays', prop + '_*.json'))):
        w_ = json.load(open(p))
        if w_.get('kind') == 'pumlguard':
            ok, detail = replay_pumlguard(w_['expr'])
            if not ok:
                lines.append('VIOLATION property=%s replay=%s' % (prop, p))
                lines.append('  PlantUML guard "%s": %s' % (w_['expr'], detail))
                violations += 1
    evaluations = evalA + tok['docs'] + gtotal
    distinct = len(ntA) + tok['distinct_nontrivial'] + gnt
    if sample_doc:
        samples.append(dict(part='tokenizer fuzz', document=sample_doc.split('\n')[:12]))
    for g in gsamples:
        samples.append(dict(part='guard parser', expression=g))
    ev = dict(property_id=prop, tier=tier, seed=seed, level='exploration',
              coverage=dict(evaluations=evaluations, distinct_nontrivial=distinct, rule=plan['rule'], samples=samples or ['(none)'],
                            frontend_differential=dict(cases=evalA, distinct_nontrivial=len(ntA), specs=len(specsA) + len(specsB), binaries=len(todo) - len(failed),
                                                       groups=len(jobs), classes=classes, not_compiling=failed[:10]),
                            tokenizer_fuzz=dict(tok, engine='libFuzzer -seed=%d, ASan+UBSan, oracle in target' % seed),
                            guard_parser=dict(expressions=gtotal, nontrivial=gnt, valuations_each=32),
                            harness_errors=errors[:6]),
              assumptions=plan.get('assumptions', []), wall_s=round(time.time() - t0, 2), violations=violations)
    os.makedirs(EVID, exist_ok=True)
    json.dump(ev, open(os.path.join(EVID, prop + '.json'), 'w'), indent=1, default=str)
    for l in lines:
        print(l)
    print('%s %s: frontend cases=%d (distinct nontrivial %d), tokenizer docs=%d rows=%d, guard expressions=%d; violations=%d wall=%.0fs' %
          (prop, tier, evalA, len(ntA), tok['docs'], tok['rows'], gtotal, violations, time.time() - t0))
    if violations:
        return 1
    if errors or evalA == 0 or tok['docs'] == 0 or gtotal == 0:
        for e in errors[:5]:
            print('HARNESS-ERROR:', json.dumps(e)[:1500])
        return 2
    return 0


def replay_pumlguard(expr):
    import subprocess
    from . import pumlguard
    gdir = os.path.join(build.BUILD, 'pumlguard_replay')
    os.makedirs(gdir, exist_ok=True)
    h = hashlib.sha256((expr + build.tree_hash()).encode()).hexdigest()[:12]
    src, binp = os.path.join(gdir, h + '.cpp'), os.path.join(gdir, h)
    open(src, 'w').write(pumlguard.emit_tu([expr]))
    c = subprocess.run(['g++', '-std=gnu++20', '-O0', '-w', '-I' + os.path.join(build.REPO, 'include'), src, '-o', binp], capture_output=True, text=True)
    if c.returncode != 0:
        return False, 'does not compile: ' + c.stderr[-300:]
    out = subprocess.run([binp], capture_output=True, text=True).stdout
    return ('FAIL' not in out), out.strip()


# ------------------------------------------------------------------------------------------------ C20 (libFuzzer targets)
def c20_run(prop, tier, seed):
    """(a) basic_polymorphic stateful fuzz over a type grid, (b) queue / deferred queue / event pool lifetime through
    machines for back (deque, circular), back11, backmp11 (both compile policies). Oracle and sanitizers inside the targets."""
    import subprocess, shutil
    from concurrent.futures import ThreadPoolExecutor
    t0 = time.time()
    plan = plans.PLANS[prop]
    quick = tier == 'quick'
    fz_dir = os.path.join(build.BUILD, 'c20b_' + build.tree_hash()[:16])
    os.makedirs(fz_dir, exist_ok=True)
    art = REPLAYS_NEW
    os.makedirs(art, exist_ok=True)
    targets = [('poly', 'poly_fuzz.cpp', [], 'POLY_FUZZ_STATS')]
    for c in (1, 3, 4, 5, 7):
        targets.append(('queue_%s' % build.CONFIGS[c], 'queue_fuzz.cpp', ['-DCFG=%d' % c], 'QUEUE_FUZZ_STATS'))
    # -fno-sanitize=function: back11 and backmp11 favor_compile_time erase the event type of their dispatch cells by design
    # (reinterpret_cast of function pointers); that is not a lifetime / memory error and would stop every run at the first call
    flags = ['-std=gnu++17', '-g', '-O1', '-fsanitize=fuzzer,address,undefined', '-fno-sanitize=function', '-fno-sanitize-recover=undefined', '-I' + os.path.join(build.REPO, 'include')]

    def build_t(t):
        name, src, defs, _ = t
        out = os.path.join(fz_dir, name)
        if os.path.exists(out):
            return name, None
        c = subprocess.run(['clang++'] + flags + defs + [os.path.join(build.HARNESS, src), '-o', out + '.tmp'], capture_output=True, text=True)
        if c.returncode != 0:
            return name, c.stderr[-1500:]
        os.rename(out + '.tmp', out)
        return name, None
    errors, lines = [], []
    with ThreadPoolExecutor(max_workers=6) as tp:
        for name, err in tp.map(build_t, targets):
            if err:
                errors.append(dict(error='%s does not build: %s' % (name, err)))
    runs = dict(poly=150000 if quick else 8000000)
    qruns = 60000 if quick else 2000000
    nproc = 1 if quick else 3
    procs = []
    for name, src, defs, statvar in targets:
        binp = os.path.join(fz_dir, name)
        if not os.path.exists(binp):
            continue
        for w_ in range(nproc):
            corpus = os.path.join(fz_dir, 'corpus_%s_%d_%s_%d' % (name, seed, tier, w_))
            shutil.rmtree(corpus, ignore_errors=True)
            os.makedirs(corpus)
            stf = os.path.join(fz_dir, 'stats_%s_%d.json' % (name, w_))
            if os.path.exists(stf):
                os.remove(stf)
            env = dict(os.environ)
            env[statvar] = stf
            n = (runs['poly'] if name == 'poly' else qruns) // nproc
            outf = os.path.join(fz_dir, 'out_%s_%d_%s_%d.log' % (name, seed, tier, w_))      # (a file, not a pipe: see c14_run)
            p = subprocess.Popen([binp, '-seed=%d' % (seed * 1000 + w_ + 1), '-runs=%d' % n, '-max_len=256', '-print_final_stats=0',
                                  '-artifact_prefix=%s/C20_%s_' % (art, name), corpus], env=env, stdout=open(outf, 'w'), stderr=subprocess.STDOUT)
            procs.append((name, w_, p, stf, corpus, outf))
    per_target = {}
    violations = 0
    for name, w_, p, stf, corpus, outf in procs:
        p.wait()
        out = open(outf, errors='replace').read()[-200000:]
        shutil.rmtree(corpus, ignore_errors=True)
        st_ = {}
        if os.path.exists(stf):
            try:
                st_ = json.load(open(stf))
            except Exception:
                st_ = {}
        agg = per_target.setdefault(name, {})
        for k, v in st_.items():
            agg[k] = agg.get(k, 0) + v
        if p.returncode != 0:
            artf = [l.split('written to ')[-1].strip() for l in out.split('\n') if 'Test unit written to' in l and ('crash-' in l or 'leak-' in l)]
            why = [l for l in out.split('\n') if 'ORACLE-FAILURE' in l or 'ERROR: AddressSanitizer' in l or 'runtime error' in l or 'ERROR: LeakSanitizer' in l]
            if artf:
                lines.append('VIOLATION property=%s replay=%s' % (prop, artf[0]))
                lines.append('  target %s: %s' % (name, ' | '.join(why)[:700]))
                violations += 1
            else:
                errors.append(dict(error='%s ended with rc=%s without a crash artifact (inconclusive): %s' % (name, p.returncode, out[-400:])))
    evaluations = sum(v.get('iterations', 0) for v in per_target.values())
    distinct = sum(v.get('distinct_nontrivial', 0) for v in per_target.values())
    ev = dict(property_id=prop, tier=tier, seed=seed, level='fault_enumeration',
              coverage=dict(evaluations=evaluations, distinct_nontrivial=distinct, rule=plan['rule'],
                            samples=[dict(target='poly', type_grid='sizes 1,8,31,32,39,40,41,47,48,49,64,200,512 x alignments 1,8,16,64 x {trivial, non-trivial copy, non-trivial dtor, throwing move, self-referential} = 130 types',
                                          ops='make / emplace, copy-construct, copy-assign (incl. self), move-construct, move-assign (incl. self), destroy, assign into moved-from'),
                                     dict(target='queue_*', events='EvA trivial 4B; EvB non-trivial 24B (inline); EvC non-trivial 200B (heap); EvD throwing move (heap); EvE 16-aligned 40B',
                                          ops='process_event, enqueue_event, execute all/single, nested submission from an action, deferral at root and inside a submachine, clear queues, stop/start, copy/move machine (backmp11), destroy with events pending')],
                            per_target=per_target, engine='libFuzzer (clang 14) -seed=%d, ASan+UBSan, oracle inside the target' % seed, harness_errors=errors[:6]),
              assumptions=plan.get('assumptions', []), wall_s=round(time.time() - t0, 2), violations=violations)
    os.makedirs(EVID, exist_ok=True)
    json.dump(ev, open(os.path.join(EVID, prop + '.json'), 'w'), indent=1, default=str)
    for l in lines:
        print(l)
    print('%s %s: %s; violations=%d wall=%.0fs' % (prop, tier, ', '.join('%s iters=%s' % (k, v.get('iterations')) for k, v in per_target.items()), violations, time.time() - t0))
    if violations:
        return 1
    if errors or len(per_target) < len(targets) or any(v.get('iterations', 0) == 0 for v in per_target.values()):
        for e in errors[:5]:
            print('HARNESS-ERROR:', json.dumps(e)[:1200])
        return 2
    return 0
