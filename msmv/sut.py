"""Subprocess wrapper for a compiled SUT: one case per line in, one trace line out."""
import subprocess, os, select


class Sut:
    def __init__(self, binpath, env=None, wrapper=()):
        self.binpath = binpath
        e = dict(os.environ)
        if env:
            e.update(env)
        self.p = subprocess.Popen(list(wrapper) + [binpath], stdin=subprocess.PIPE, stdout=subprocess.PIPE,
                                  stderr=subprocess.PIPE if not wrapper else None, text=True, bufsize=1, env=e)
        ready = self.p.stdout.readline()
        if not ready.startswith('READY'):
            raise RuntimeError('SUT did not start: %r' % ready)
        self.idmap = parse_idmap(ready[6:].strip())
        self.dead = False
        self.timeout = float(os.environ.get('VERIF_SUT_TIMEOUT', '30'))

    def run(self, case_line):
        """Returns the trace (string) or raises SutCrash."""
        try:
            self.p.stdin.write(case_line + '\n')
            self.p.stdin.flush()
            r, _, _ = select.select([self.p.stdout], [], [], self.timeout)
            if not r:
                # the SUT does not answer: an operation that costs microseconds is spinning (or blocked)
                self.p.kill()
                self.dead = True
                raise SutHang(case_line)
            out = self.p.stdout.readline()
        except BrokenPipeError:
            out = ''
        if not out:
            self.dead = True
            rc = self.p.wait()
            err = ''
            try:
                err = self.p.stderr.read()[-4000:] if self.p.stderr else ''
            except Exception:
                pass
            raise SutCrash(rc, err)
        return out.rstrip('\n')

    def close(self):
        if not self.dead:
            try:
                self.p.stdin.write('quit\n')
                self.p.stdin.flush()
                self.p.wait(timeout=5)
            except Exception:
                self.p.kill()
        self.dead = True


class SutHang(Exception):
    def __init__(self, line):
        super().__init__('SUT did not answer within the time limit on: %s' % line[:200])
        self.rc = 'hang'
        self.err = 'no answer (spinning) on operation: %s' % line[:300]


class SutCrash(Exception):
    def __init__(self, rc, err):
        super().__init__('SUT crashed rc=%s: %s' % (rc, err))
        self.rc = rc
        self.err = err


def parse_idmap(s):
    m = {}
    for part in s.split(';'):
        if not part:
            continue
        k, v = part.split('=')
        mach, st = k.split(':')
        m.setdefault(mach, {})[st] = int(v)
    return m
