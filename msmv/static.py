"""Static tables derived from a spec (no semantics): attribution of atoms/actions/states, enabled events."""
from . import spec as S


class Static:
    def __init__(self, spec):
        self.spec = spec
        self.machine = {}        # name -> machine dict
        self.level = {}          # machine name -> nesting level (root = 1)
        self.parent = {}         # machine name -> parent machine name
        self.state_owner = {}    # state name -> (machine name, region index)
        self.atom_owner = {}     # atom -> (machine name, region index or None, row key)
        self.action_owner = {}   # action id -> (machine name, region index or None, row key)
        self.rows = []           # (machine name, region or None, kind, row) kind: table|sint|mint
        self.root_region = {}    # state or machine name -> root region index
        for m, path in S.machines(spec):
            nm = m['name']
            self.machine[nm] = m
            self.level[nm] = len(path)
            self.parent[nm] = path[-2] if len(path) > 1 else None
            for ri, reg in enumerate(m['regions']):
                for s in reg:
                    self.state_owner[s] = (nm, ri)
        for m, path in S.machines(spec):
            nm = m['name']
            for i, r in enumerate(m['table']):
                src = r['src'] if isinstance(r['src'], str) else r['src']['exit_pt'][0]
                ri = S.region_of(m, src)
                self._own(nm, ri, ('t', nm, i), r, 'table')
            for s, st in m['states'].items():
                for i, r in enumerate(st.get('internal') or []):
                    self._own(nm, S.region_of(m, s), ('si', s, i), dict(r, src=s), 'sint')
            for i, r in enumerate(m.get('internal') or []):
                self._own(nm, None, ('mi', nm, i), r, 'mint')
        # root region of everything
        root = spec['root']
        for ri, reg in enumerate(root['regions']):
            for s in reg:
                self._mark_root_region(root, s, ri)
        self.events = [e['name'] for e in spec['events']]

    def _mark_root_region(self, m, s, ri):
        self.root_region[s] = ri
        st = m['states'][s]
        if st['kind'] == 'sub':
            sub = st['machine']
            for reg in sub['regions']:
                for t in reg:
                    self._mark_root_region(sub, t, ri)

    def _own(self, nm, ri, key, r, kind):
        self.rows.append((nm, ri, kind, r, key))
        for a in S.guard_atoms(r.get('guard')):
            self.atom_owner.setdefault(a, (nm, ri, key))
        acts = r.get('actions')
        if isinstance(acts, list):
            for a in acts:
                self.action_owner.setdefault(a, (nm, ri, key))

    # ------------------------------------------------------------------
    def parse_ids(self, tok):
        """'ids{Root=S1,S4;M1=S8;}' -> {machine: [names]}"""
        out = {}
        for p in tok[4:-1].split(';'):
            if p:
                k, v = p.split('=')
                out[k] = v.split(',')
        return out

    def active_machines(self, ids):
        """machines that are active given per-machine ids (root always)."""
        act = []

        def rec(nm):
            act.append(nm)
            m = self.machine[nm]
            for s in ids.get(nm, []):
                st = m['states'].get(s)
                if st and st['kind'] == 'sub':
                    rec(s)
        rec(self.spec['root']['name'])
        return act

    def enabled_events(self, ids):
        """indices of events having some candidate row (any guard) in the observed active configuration."""
        out = set()
        for nm in self.active_machines(ids):
            m = self.machine[nm]
            act = set(ids.get(nm, []))
            for r in m['table']:
                src = r['src'] if isinstance(r['src'], str) else r['src']['exit_pt'][0]
                if src in act and r['ev'] is not None:
                    out.add(r['ev'])
            for s in act:
                st = m['states'].get(s)
                if st:
                    for r in st.get('internal') or []:
                        out.add(r['ev'])
                    for e in st.get('deferred') or []:
                        out.add(e)
            for r in m.get('internal') or []:
                out.add(r['ev'])
        idx = []
        byname = {e['name']: e for e in self.spec['events']}
        for i, e in enumerate(self.spec['events']):
            if e.get('kleene'):
                continue
            if any(b in out for b in S.event_bases(self.spec, e['name'])):
                idx.append(i)
        return idx


def row_source_name(r):
    return r['src'] if isinstance(r['src'], str) else r['src']['exit_pt'][0]


def row_target_name(r):
    t = r.get('tgt')
    if t is None:
        return row_source_name(r)       # internal row: stays in its source
    if isinstance(t, str):
        return t
    if 'direct' in t:
        return t['direct'][0]
    return t['entry_pt'][0]


def explicit_creation_list(m):
    used = set()
    for r in m['table']:
        if isinstance(r['src'], str):
            used.add(r['src'])
        if isinstance(r.get('tgt'), str):
            used.add(r['tgt'])
    for reg in m['regions']:
        used.add(reg[0])
    return [s for s in S.state_order(m) if s not in used]


def documented_ids(m, dialect):
    """state ids of machine m computed from the documented numbering rule, independently of MSM.
    back/back11 (internals.adoc): sources of the rows top-down, where transition-less initial states and
    explicit_creation states count as source rows appended to the table; then targets top-down.
    backmp11 (comment above generate_state_set): sources, targets, remaining initial states, explicit_creation."""
    order = []

    def add(s):
        if s not in order:
            order.append(s)
    in_table = set()
    for r in m['table']:
        in_table.add(row_source_name(r))
        in_table.add(row_target_name(r))
    inits = [reg[0] for reg in m['regions']]
    expl = explicit_creation_list(m)
    if dialect == 'back':
        for r in m['table']:
            add(row_source_name(r))
        for s in inits:
            if s not in in_table:
                add(s)
        for s in expl:
            if s not in in_table:
                add(s)
        for r in m['table']:
            add(row_target_name(r))
    else:
        for r in m['table']:
            add(row_source_name(r))
        for r in m['table']:
            add(row_target_name(r))
        for s in inits:
            add(s)
        for s in expl:
            add(s)
    return {s: i for i, s in enumerate(order)}
