"""Per-property plans: which specs, configurations, case profile, oracle and budgets."""

ALLCFG = [1, 2, 3, 4, 5, 6, 7]

PLANS = {
    'C01': dict(
        oracle='C01', level='exploration',
        profiles=[('core', 2), ('hier', 3)], curated=[], configs=ALLCFG,
        cp=dict(max_ops=25, kinds=['P']), examples=(300, 3000), floor=(200, 2000),
        rule='Hypothesis-generated event histories with per-step guard valuations on generated machines (core/hier profiles: '
             '1-3 regions, depth<=3, conflicting rows, state- and machine-internal tables); oracle: per (machine,region) ordered '
             'guard evaluations and actions equal the reference model. Non-trivial = a step in which one region consulted >= 2 '
             'candidate rows or candidates existed at >= 2 nesting levels; distinct by (spec, configuration before, event, '
             'guard/action token sequence).',
        assumptions=['reference model (msmv/model.py) encodes the selection rule as stated in C01 / internals.adoc',
                     'guards are pure functions of the per-step valuation'],
    ),
    'C02': dict(
        oracle='C02', level='exploration',
        profiles=[('core', 2), ('hier', 3)], curated=[], configs=ALLCFG,
        cp=dict(max_ops=25, kinds=['P', 'P', 'P', 'P', 'T'], final_stop=True), examples=(300, 3000), floor=(150, 1500),
        rule='Generated histories (start/process_event/stop+restart) on core/hier machines; oracle: per root region the '
             'exit/action/entry token sequence and the active configuration after each operation equal the reference model '
             '(exit cascade innermost first, actions in written order, entry cascade outermost first, then switch). Non-trivial = '
             'a step whose exit or entry cascade has >= 3 elements, a self-transition, or an internal transition; distinct by '
             '(spec, configuration before, event, ex/a/en sequence).',
        assumptions=['reference model R-exec as stated in C02'],
    ),
    'C06': dict(
        oracle='C06', level='exploration',
        profiles=[('core', 3), ('hier', 2)], curated=[], configs=ALLCFG,
        cp=dict(max_ops=25, kinds=['P']), examples=(300, 3000), floor=(150, 1500),
        rule='Generated histories with valuations forcing mixed outcomes; model-free invariants per process_event call: region '
             'indices of observed behaviours never decrease per machine; handled bit <=> a transition behaviour ran; zero <=> no '
             'guard consulted and nothing ran; no_transition multiset == root active states iff zero, never on a submachine; '
             'plus result class == model. Non-trivial = outcomes differ between root regions, or nothing matched; distinct by '
             '(spec, configuration, event, outcome vector, class).',
        assumptions=['every internal row in generated machines has at least one action, so a taken transition is always visible'],
    ),
    'C07': dict(
        oracle='C07', level='exploration',
        profiles=[('hier', 6)], curated=[], configs=ALLCFG,
        cp=dict(max_ops=25, kinds=['P', 'P', 'P', 'P', 'T'], final_stop=True), examples=(400, 3000), floor=(100, 1000),
        rule='Generated histories on machines of depth 2-3; oracle: per root region the sequence of (behaviour kind, nesting '
             'level) equals the model (inner levels consulted first, single consumption, cascades by level) and no behaviour of '
             'a machine that is inactive before and after the step is observed. Non-trivial = a step whose guards were consulted '
             'at >= 2 levels or that was consumed at a level different from where consultation started.',
        assumptions=['reference model R-dispatch/R-exec'],
    ),
}
NOT_YET = {}
