"""Per-property plans: which specs, configurations, case profile, oracle and budgets."""

ALLCFG = [1, 2, 3, 4, 5, 6, 7]

PLANS = {
    'C01': dict(
        oracle='C01', level='exploration',
        profiles=[('core', 2), ('core_smi', 1), ('hier', 2), ('hier_sparse', 2)], curated=[], configs=ALLCFG,
        cp=dict(max_ops=25, kinds=['P']), examples=(300, 1500), floor=(60, 240),
        rule='Hypothesis-generated event histories with per-step guard valuations on generated machines (core/hier profiles: '
             '1-3 regions, depth<=3, conflicting rows, state- and machine-internal tables incl. 2-3 conflicting machine-level rows; '
             'hier_sparse: depth 3 where each level mentions only 2-3 of 6 event types); oracle: per (machine,region) ordered '
             'guard evaluations and actions equal the reference model. Non-trivial = a step in which one region consulted >= 2 '
             'candidate rows or candidates existed at >= 2 nesting levels; distinct by (spec, configuration before, event, '
             'guard/action token sequence).',
        assumptions=['reference model (msmv/model.py) encodes the selection rule as stated in C01 / internals.adoc',
                     'guards are pure functions of the per-step valuation'],
    ),
    'C02': dict(
        oracle='C02', level='exploration',
        profiles=[('core', 2), ('hier', 3), ('policy_before', 1)], curated=[], configs=ALLCFG,
        cp=dict(max_ops=25, kinds=['P', 'P', 'P', 'P', 'T'], final_stop=True), examples=(300, 1500), floor=(40, 160),
        rule='Generated histories (start/process_event/stop+restart) on core/hier machines; oracle: per root region the '
             'exit/action/entry token sequence and the active configuration after each operation equal the reference model '
             '(exit cascade innermost first, actions in written order, entry cascade outermost first, then switch). Non-trivial = '
             'a step whose exit or entry cascade has >= 3 elements, a self-transition, or an internal transition; distinct by '
             '(spec, configuration before, event, ex/a/en sequence).',
        assumptions=['reference model R-exec as stated in C02'],
    ),
    'C06': dict(
        oracle='C06', level='exploration',
        profiles=[('core', 3), ('hier', 2), ('pseudo', 1)], curated=[], configs=ALLCFG,
        cp=dict(max_ops=25, kinds=['P']), examples=(300, 1500), floor=(40, 160),
        rule='Generated histories with valuations forcing mixed outcomes (one machine with entry/exit pseudo states, where an '
             'exit-point event sent from outside must count as not matched); model-free invariants per process_event call: region '
             'indices of observed behaviours never decrease per machine; handled bit <=> a transition behaviour ran; zero <=> no '
             'guard consulted and nothing ran; no_transition multiset == root active states iff zero, never on a submachine; '
             'plus result class == model. Non-trivial = outcomes differ between root regions, or nothing matched; distinct by '
             '(spec, configuration, event, outcome vector, class).',
        assumptions=['every internal row in generated machines has at least one action, so a taken transition is always visible'],
    ),
    'C07': dict(
        oracle='C07', level='exploration',
        profiles=[('hier', 4), ('hier_sparse', 2), ('defer_nested_outer', 1)], curated=[], configs=ALLCFG,
        cp=dict(max_ops=25, kinds=['P', 'P', 'P', 'P', 'T'], final_stop=True), examples=(400, 1500), floor=(20, 80),
        rule='Generated histories on machines of depth 2-3; oracle: per root region the sequence of (behaviour kind, nesting '
             'level) equals the model (inner levels consulted first, single consumption, cascades by level) and no behaviour of '
             'a machine that is inactive before and after the step is observed. Non-trivial = a step whose guards were consulted '
             'at >= 2 levels or that was consumed at a level different from where consultation started.',
        assumptions=['reference model R-dispatch/R-exec'],
    ),
    'C08': dict(
        oracle='C08', level='exploration',
        profiles=[('history', 2), ('hist_explicit', 3), ('pseudo', 1), ('pseudo_nc', 1)], curated=[], configs=ALLCFG,
        cp=dict(max_ops=30, kinds=['P']), examples=(400, 1500), floor=(20, 80),
        rule='Generated enter/move/exit histories on machines whose submachines carry each history policy (1-3 regions), incl. '
             'explicit/fork/entry-point entries; oracle: entry behaviours per root region and active states of active machines '
             'after each step equal R-history. Non-trivial = a (re-)entry of a history submachine whose remembered states differ '
             'from its initial states; distinct by (spec, submachine, remembered states, entering event, entry sequence).',
        assumptions=['reference model R-history as stated in C08'],
    ),
    'C09': dict(
        oracle='C09', level='exploration',
        profiles=[('pseudo', 3), ('pseudo_nc', 2), ('hist_explicit', 2)], curated=[], configs=ALLCFG,
        cp=dict(max_ops=30, kinds=['P']), examples=(400, 1500), floor=(100, 400),
        rule='Generated histories on machines combining direct<>, fork, entry_pt<> and exit_pt<> rows; oracle: every step that '
             'touches a pseudo construct (pseudo state entered/left, pseudo row consulted, or an exit point event sent while the '
             'exit point is not active) equals the model token for token, including the event each behaviour receives. '
             'Non-trivial = such a step; distinct by (spec, configuration before, event, token sequence).',
        assumptions=['reference model R-entry/exit-points as stated in C09', 'exit points are not combined with history on the same submachine'],
    ),
    'C10': dict(
        oracle='C10', level='exploration',
        profiles=[('completion', 3), ('completion_defer', 2), ('completion_sub', 2)], curated=[], configs=ALLCFG,
        cp=dict(max_ops=30, kinds=['P', 'P', 'P', 'P', 'Q', 'Q', 'X', 'T'], no_restart_with_deferral=True), examples=(400, 1500), floor=(100, 400),
        rule='Generated histories (process_event, enqueue_event, execute queued all/single, stop/start) on machines with completion '
             'rows (chains, conflicts, guards frozen per entry of the source; also with root-level deferral and inside multi-region '
             'submachines that are initial states); oracle: per (machine,region) completion firings with the guard consultations '
             'that belong to them == model (how often a frozen guard is asked without firing is not compared), order of completion work relative to other occurrences == model, no no_transition for completion events, and '
             '(model-free) no active simple state has an enabled completion row at a quiescent point. Non-trivial = a completion '
             'firing with another occurrence pending, a chain >= 2, or conflicting completion rows.',
        assumptions=['completion guards are frozen from the entry of their source state (property quantifier)'],
    ),
    'C03': dict(
        oracle='C03', level='exploration',
        profiles=[('intro', 5), ('intro_roothist', 1)], curated=[], configs=ALLCFG,
        cp=dict(max_ops=30, kinds=['P', 'P', 'P', 'P', 'Q', 'X', 'T'], auto_probe=True, final_stop=True,
                scripts={'p': ['r', 'Q', 'q']}),
        examples=(300, 1250), floor=(25, 100),
        rule='Generated start/process_event/enqueue/execute-queued/stop histories (callbacks submit further events) on machines '
             'with hierarchy, history, pseudo states and completion rows; full introspection probe after every operation. '
             'Model-free oracle: entry/exit ledger alternates; one entered state per region of each active machine and it belongs '
             'to the region; current_state/get_active_state_ids, is_state_active, visitors (4 modes), get_state_by_id agree with the '
             'ledger; ids follow the documented numbering (computed from the spec); stop() exits everything innermost-first. '
             'Non-trivial = quiescent point after a submachine entry/exit, a cascade or a nested submission; distinct by '
             '(spec, set of entered states).',
        assumptions=['exception-free behaviours (property domain)', 'events are submitted only between start() and stop()'],
    ),
    'C04': dict(
        oracle='C04', level='exploration',
        profiles=[('queue', 6)], curated=[], configs=ALLCFG,
        cp=dict(max_ops=25, kinds=['P', 'P', 'P', 'Q', 'Q', 'X', 'N'], scripts={'p': ['f', 'r', 'q', 'Q'], 't': True},
                start_scripts={'p': ['f', 'r', 'q', 'Q']}),
        examples=(300, 1250), floor=(100, 400),
        rule='Generated histories in which behaviours at arbitrary callback ordinals (guards, exits, actions, entries, also during '
             'start()) submit 0-3 further events via process_event/enqueue_event on the machine they received or on the root, '
             'interleaved with top-level enqueue_event / execute_queued_events / execute_single_queued_event; every occurrence '
             'carries a unique payload id. Model-free invariants: the submitting call returns at once; each occurrence is dispatched '
             'in one contiguous block, exactly once or still pending; FIFO per receiving machine; only behaviours of the addressed '
             'machine (and its descendants) see it; drain / single-step semantics; pending count. Plus per-occurrence agreement with '
             'the model when the dispatch order agrees. Non-trivial = a step with >= 2 submissions, one of them from a nested level or '
             'an entry behaviour.',
        assumptions=['queues of sufficient capacity (circular buffer sized 256)', 'no deferral, no exit points in this profile'],
    ),
    'C05': dict(
        oracle='C05', level='exploration',
        profiles=[('defer', 3), ('defer_act', 3), ('defer_cond', 2), ('defer_nested', 2), ('defer_nested_outer', 2)], curated=[], configs=ALLCFG,
        # counter boundaries: back tags deferred entries with a char, backmp11 with a uint16_t; a generator cannot reach 2^16
        # handled events, a quiet repeat operation can
        directed=[('seqwrap', ['S:0 P:0:1:0 RP:1:%d:0 P:2:2:0 N' % n for n in list(range(250, 262)) + list(range(65528, 65541))])],
        cp=dict(max_ops=30, kinds=['P', 'P', 'P', 'P', 'Q', 'X', 'N'], scripts={'p': ['r', 'Q']}),
        examples=(200, 1000), floor=(60, 240),
        rule='Generated histories on machines whose states defer 1-2 event types through each of the three mechanisms: a deferred_events '
             'list, an unguarded row with the Defer action, and (backmp11) is_event_deferred predicates whose verdict is read from '
             'the trace; root level inside the documented back/back11 domain (no row on a deferred event in the deferring state or '
             'a sibling region), any nesting level and several regions for backmp11, incl. outer rows on an action-deferred type; '
             'mixing deferred types with state changes, enqueue_event, '
             'execute-queued and submissions from behaviours; unique payload ids. Model-free invariants: an occurrence of a type '
             'deferred by an entered state is neither dispatched nor reported through no_transition; at every quiescent point no '
             'occurrence is pending unless an entered state defers its type; same-type deferred occurrences re-offered in arrival '
             'order; nothing dispatched twice; pending count. Non-trivial = an occurrence that was deferred, stayed pending across '
             '>= 1 other operation and was later re-offered; distinct by (spec, type, configuration at re-offer, ...).',
        assumptions=['event_queue_before_deferred_queue is not configured', 'deferral declared at root level (back/back11 domain)',
                     'an event submitted from the entry behaviour of the new state counts as submitted before the configuration change '
                     '(its order relative to re-offered deferred events is not asserted)'],
    ),
    'C11': dict(
        oracle='C11', level='exploration',
        profiles=[('blocking', 4), ('blocking_joint', 3)], curated=[], configs=ALLCFG,
        cp=dict(max_ops=30, kinds=['P', 'P', 'P', 'P', 'P', 'Q', 'X', 'T'], scripts={'p': ['r', 'Q']}),
        examples=(300, 1250), floor=(10, 40),
        rule='Generated histories on machines whose root declares terminate and interrupt states (1-3 regions, single and multiple '
             'end-interrupt events, flags, completion rows, queued events and submissions from behaviours pending when the blocking '
             'state is entered), with long tails of events afterwards. Model-free invariant: while a blocking state is entered no '
             'behaviour runs for any occurrence other than the one that entered it (interrupt: except end-interrupt types), the '
             'configuration does not change, swallowed occurrences never reappear; end-interrupt steps equal the model. '
             'Non-trivial = a submission or queue execution while blocked; distinct by (spec, blocking states, event, configuration).',
        assumptions=['blocking states are declared in the machine that receives the events (root)'],
    ),
    'C17': dict(
        oracle='C17', level='exploration',
        profiles=[('flags', 3), ('flags_deep', 2), ('policy_after_action', 1), ('policy_before', 1)], curated=[], configs=ALLCFG,
        cp=dict(max_ops=25, kinds=['P', 'P', 'P', 'P', 'T'], scripts={'b': True}, auto_probe=True),
        examples=(300, 1250), floor=(10, 40),
        rule='Generated histories on machines with user flags on simple states, submachine states and substates; probe of every '
             '(machine, flag) with OR and AND after every operation and probes from inside behaviours at generated callback ordinals. '
             'Oracle: OR <=> some state of the active configuration (recursively) carries the flag; AND <=> every region of the '
             'queried level carries it (only where that level has only simple active states); inside behaviours the reported ids and '
             'flags equal the policy-defined configuration of the model. Non-trivial = a quiescent probe where OR != AND or where the '
             'flag is carried only by a nested level; distinct by (spec, machine, flag, configuration).',
        assumptions=['AND form is checked only on levels whose active states are all simple (property carve-out)'],
    ),
    'C19': dict(
        oracle='C19', level='exploration',
        profiles=[('policy_after_entry', 2), ('policy_after_action', 2), ('policy_after_exit', 2), ('policy_before', 2), ('policy_default', 1)],
        curated=[], configs=ALLCFG,
        cp=dict(max_ops=20, kinds=['P'], scripts={'b': True}),
        examples=(300, 1250), floor=(100, 400),
        rule='Machines generated under each of the four active-state-switch policies (and the default); behaviours at generated '
             'callback ordinals (guard, exit, action, entry of external transitions, also into/out of submachines and in orthogonal '
             'regions) read current_state()/get_active_state_ids() of every machine and every flag. Oracle: each probe equals the '
             'documented policy table (model R-policy); with probes removed the trace equals the policy-independent model trace. '
             'Non-trivial = a probe hosted by a behaviour of an external transition; distinct by (spec, policy, phase, host, answer).',
        assumptions=['reference model R-policy restates active_state_switching_policies.hpp independently'],
    ),
    'C12': dict(
        oracle='C12', level='fault_enumeration', mode='fault_enum', keep_cases=6, post='c12_uninit',
        profiles=[('throw', 2), ('throw_after_action', 2), ('throw_after_exit', 1), ('throw_before', 1)], curated=[], configs=ALLCFG,
        cp=dict(kinds=['P', 'P', 'P', 'Q', 'X'], scripts={'p': ['r', 'Q']}, cont_scripts={'p': ['r', 'Q'], 't': True}, max_prefix=8, max_cont=5),
        examples=(60, 250), floor=(150, 600),
        rule='Fault enumeration: for each generated (machine, prefix history, step) the step is first run fault-free to count its '
             'callback positions (guards, every exit and entry of a cascade, actions, completion transitions, behaviours run for '
             'queued occurrences, all nesting levels); then EVERY position is used as the throw point on a fresh machine with the '
             'same prefix, followed by a generated continuation (which may throw again). Oracle: nothing escapes; exactly one '
             'exception_caught with the occurrence being processed; trace before the throw == fault-free run; no no_transition for '
             'the event when the outermost machine caught it; faulted step, configuration afterwards and the whole continuation == '
             'model. Non-trivial = a fault inside a taken transition (not a guard) followed by >= 1 continuation step; distinct by '
             '(spec, configuration, step, position).',
        assumptions=['machines are not configured no_exception_thrown', 'only process_event/execute-queued paths are claimed (not start/stop)',
                     'uninitialised-data clause: see coverage.uninit (zero/pattern differential and valgrind sample)'],
    ),
    'C13': dict(
        oracle='C13', level='exploration', multi=True,
        profiles=[('common', 5), ('common_smi', 2), ('core_smi', 1)], curated=[], configs=ALLCFG,
        cp=dict(max_ops=25, kinds=['P', 'P', 'P', 'P', 'P', 'Q', 'X', 'T'], xmodes=['a'], scripts={'p': ['r', 'Q'], 't': True}, final_stop=True),
        examples=(250, 1000), floor=(100, 400),
        rule='Differential: generated machines in the common feature subset (hierarchy, 1-3 regions, conflicts, state-internal '
             'tables, completion rows with guards frozen per entry, history, explicit/fork/entry/exit points, root-level deferral '
             'without contradicting rows, root-level blocking states, flags) are compiled for every configuration (back, back + '
             'favor_compile_time, back + circular queue, back11, backmp11 flat_fold, backmp11 function_pointer_array, backmp11 + '
             'favor_compile_time); the same generated case (events, valuations, nested submissions, throws, enqueue/execute, stop/start) '
             'is driven into all of them and the normalised traces must be identical. Cases on which the two documented model dialects '
             'disagree are outside the subset and discarded (counted). Non-trivial = a compared case touching hierarchy, >= 2 regions, '
             'completion, queue, nested submission or a throw, run on >= 3 configurations; distinct by (spec, case).',
        assumptions=['state identity is compared by name, result codes by class (zero / handled bit / other)',
                     'a configuration that cannot compile a declaration is not compared for that machine (recorded)'],
    ),
    'C14': dict(
        custom='c14_run', oracle='C14', level='exploration', profiles=[('frontlang', 3), ('frontlang2', 2)], configs=[1, 4, 5], cp=dict(max_ops=20, kinds=['P']),
        examples=(200, 750),
        rule='Three sub-checks. (1) Front-end differential: generated flat machines (1-3 regions, conflicts, composite guards over '
             'logging atoms, action sequences of 0-3, internal and anonymous rows, flags, terminate states) are emitted with functor '
             'rows, with basic rows (row/a_row/g_row/_row/irow family, every third row through the row2 family), as an eUML '
             'transition-table expression (back/back11) and as a PlantUML string in two renderings (canonical; other arrow lengths, '
             'padding and action/guard order), compiled on back, back11 and backmp11; the same generated case must give the same trace on every variant and equal the model. (2) PlantUML tokenizer: '
             'libFuzzer + ASan/UBSan target decodes bytes into documents of the documented line grammar and checks the round trip and '
             're-styling invariance of parse_row/parse_stt/parse_inits/parse_action/count_* at run time. (3) PlantUML guard parser: '
             'random guard strings (atoms, !, &&, ||, one level of parentheses) parsed at compile time are evaluated over all 32 '
             'valuations and compared, including the order of atom evaluations, with the same text compiled as a C++ expression. '
             'Non-trivial = (1) a step with a composite guard or an action sequence, (2) a row with >= 2 optional parts, (3) an '
             'expression with >= 2 operator kinds or parentheses.',
        assumptions=['state-local internal tables are compared between functor and basic only (PlantUML / the generated eUML cannot express them)'],
    ),
    'C15': dict(
        oracle='C15', level='exploration', mode='copy',
        profiles=[('copy', 4), ('copy_hist', 2)], curated=[], configs=ALLCFG,
        cp=dict(max_ops=26, scripts={'p': ['r', 'Q']}, moves=False), cp_mp11=dict(moves=True),
        examples=(500, 1500), floor=(60, 240),
        rule='Generated histories with copy-construction (from a const reference), copy-assignment (backmp11 additionally move) at '
             'arbitrary quiescent points - nested non-initial configurations, history memory, pending enqueued and deferred '
             'occurrences - followed by different, interleaved continuations of original and copies (incl. draining pending '
             'occurrences and taking exit points). Oracle: (faithful) each derived object, from its creation on, produces token for '
             'token the trace of a fresh machine replaying that object\'s whole history; (independent) no behaviour runs on an '
             'object other than the driven one (behaviours are tagged with the object that owns the address they run on) and an '
             'object\'s configuration never changes while another is driven. Non-trivial = a copy taken from a non-initial '
             'configuration or with pending occurrences and then driven further; distinct by (spec, object, its history).',
        assumptions=['copies are taken from a const reference (a non-const lvalue selects back\'s forwarding constructor)'],
    ),
    'C16': dict(
        oracle='C16', level='exploration', mode='serial', libs=['-lboost_serialization'],
        profiles=[('serial', 6)], curated=[], configs=[1, 2, 3, 4],
        cp=dict(max_ops=22, auto_probe=True),
        examples=(250, 1000), floor=(20, 80),
        rule='Generated histories on nested machines (1-3 regions, each history policy, pseudo states, completion rows; states and '
             'front-ends with and without do_serialize) with save + load into a freshly constructed machine (text and binary '
             'archives) at arbitrary quiescent points with empty queues, then continuations on original and loaded machines. Oracle: '
             'active states of all active machines equal at the save point; opted-in counters equal, others left at their default; '
             'from then on the loaded machine produces token for token the trace of a fresh machine replaying the saved machine\'s '
             'whole history (history memory is observed through later re-entries). Non-trivial = a save point with a non-initial '
             'configuration or an inactive submachine with non-initial memory; distinct by (spec, configuration, archive format).',
        assumptions=['save points have empty queues (documented precondition)', 'back and back11 only (backmp11 serialization is not part of the property)'],
    ),
    'C20': dict(
        custom='c20_run', oracle=None, level='fault_enumeration', profiles=[], configs=[1, 3, 4, 5, 7], cp={}, examples=(0, 0),
        rule='Coverage-guided fuzzing (libFuzzer, ASan + UBSan) of two kinds of target with the oracle inside: (a) a stateful model of '
             'backmp11::detail::basic_polymorphic over 5 slots and a grid of 130 stored types (sizes around the 56-byte inline buffer, '
             'alignments 1-64, trivial / non-trivial copy / non-trivial destructor / throwing move / self-referential); (b) real '
             'machines (back deque, back circular, back11, backmp11 both policies) whose events are instance-counted types of different '
             'size/alignment/traits, driven through submit, enqueue, defer (root and submachine), dispatch, nested submission, clear, '
             'stop/start, copy/move of the machine and destruction with events pending. Oracle: every dispatched/held object equals the '
             'submitted one (checksum, self pointer), nothing dispatched twice or unsubmitted, every stored copy destroyed exactly once '
             '(registry empty when the holders are gone). Non-trivial = an operation on a non-trivially-copyable or heap-stored object '
             '/ with occurrences pending at clear, stop, copy, move or destroy; distinct by a hash of (operation context).',
        assumptions=['queues of sufficient capacity', 'copying back/back11 machines with pending events is excluded (known finding of C15)'],
        level_text='Fuzzing with sanitizers: memory-safety and exactly-once lifetime held on everything explored; the type grid is enumerated completely, operation histories are generated.',
        technique='coverage-guided fuzzing (libFuzzer + ASan/UBSan) with an in-target lifetime/value oracle',
    ),
    'C18': dict(
        oracle='C18', level='exploration',
        profiles=[('events', 5), ('events_smi', 3)], curated=[], configs=[1, 4, 5],
        cp=dict(max_ops=25, kinds=['P', 'P', 'P', 'P', 'Q', 'X']),
        examples=(300, 1250), floor=(100, 400),
        rule='Generated machines (depth 1-2) mixing, in one state and across submachine levels, rows triggered by the exact event type, '
             'by a public base class (1-2 inheritance levels) and by a Kleene type (boost::any for back/back11, std::any for backmp11) at '
             'varying table positions; every concrete event type is sent (directly and through enqueue/execute) with generated payloads '
             'and a checksummed body of 1-200 bytes. Oracle: the whole step equals the model (which row wins = table position only; the '
             'event description each behaviour logs is the exact type, the base type, or any(<dynamic type>#<payload>)), and no body '
             'arrives corrupted. Non-trivial = a step whose consulted rows use >= 2 trigger kinds; distinct by (spec, configuration, '
             'event, kinds, rows consulted).',
        assumptions=['back, back11 (where the declarations compile) and backmp11 flat_fold, as in the property quantifier',
                     'user-declared Kleene types are not generated in this revision'],
    ),
}
NOT_YET = {}
