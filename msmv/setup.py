"""setup: validate the toolchain (offline) and warm the build cache for the default seed."""
import subprocess, sys, os, shutil


def main():
    ok = True
    for tool in ('g++', 'clang++', 'python3-vt'):
        if not shutil.which(tool):
            print('missing tool', tool)
            ok = False
    try:
        import hypothesis
        print('hypothesis', hypothesis.__version__)
    except Exception as e:
        print('hypothesis not importable:', e)
        ok = False
    if not os.path.isdir('/repo/include/boost/msm'):
        print('no /repo/include/boost/msm')
        ok = False
    if ok and os.environ.get('VERIF_SETUP_WARM', '1') == '1':
        from . import runner, plans, emit, build
        jobs = []
        seen = set()
        for prop, plan in plans.PLANS.items():
            if plan.get('custom'):
                continue
            for sp in runner.plan_specs(plan, 'quick', 1):
                cpp = emit.emit_cpp(sp)
                for c in runner.configs_for(sp, plan['configs']):
                    key = (sp['id'], c, plan.get('flavor', 'plain'))
                    if key not in seen:
                        seen.add(key)
                        jobs.append((cpp, c, plan.get('flavor', 'plain'), (), tuple(plan.get('libs', ()))))
        res = build.build_many(jobs)
        print('warmed %d binaries (%d failed to compile)' % (len(jobs), sum(1 for b, _ in res if not b)))
    return 0 if ok else 1
