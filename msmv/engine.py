"""Case generation (Hypothesis strategies), lock-step execution against a SUT, and the per-job driver."""
import os, json, hashlib, time, traceback
from hypothesis import given, settings, seed, HealthCheck, Phase, strategies as st
from . import cases, model as M, static as ST, sut as SUT, spec as S

ALL = (1 << 60) - 1


def valuation():
    return st.one_of(
        st.integers(0, ALL),
        st.just(ALL), st.just(0),
        st.integers(0, 59).map(lambda b: 1 << b),
        st.integers(0, 59).map(lambda b: ALL ^ (1 << b)),
        st.tuples(st.integers(0, ALL), st.integers(0, ALL)).map(lambda t: t[0] | t[1]),
    )


def pick():
    return st.one_of(st.tuples(st.just('en'), st.integers(0, 7)), st.tuples(st.just('en'), st.integers(0, 7)),
                     st.tuples(st.just('any'), st.integers(0, 7)))


def script_entry(nev, allow):
    """allow: subset of 't','p','b'; how: process/enqueue on fsm/root"""
    alts = []
    if 'p' in allow:
        alts.append(st.tuples(st.just('p'), st.integers(0, nev - 1), st.sampled_from(allow['p'])))
    if 't' in allow:
        alts.append(st.tuples(st.just('t')))
    if 'b' in allow:
        alts.append(st.tuples(st.just('b')))
    return st.one_of(*alts)


def scripts(nev, allow, max_n=3, max_at=11, min_at=0):
    if not allow:
        return st.just({})
    return st.dictionaries(st.integers(min_at, max_at), st.lists(script_entry(nev, allow), min_size=1, max_size=2), max_size=max_n)


@st.composite
def abstract_case(draw, spec, cp):
    """cp: case profile dict: max_ops, kinds (weights), scripts allow, start_scripts"""
    nev = len([e for e in spec['events'] if not e.get('kleene')])
    n = draw(st.integers(1, cp.get('max_ops', 30)))
    # callback 0 of start() is the root machine's own on_entry: excluded by construction (known finding
    # submission_in_root_entry_during_start_dropped, backmp11) so that the search continues behind it
    ops = [dict(op='S', val=draw(valuation()), scripts=draw(scripts(nev, cp.get('start_scripts'), min_at=1)))]
    kinds = cp.get('kinds', ['P'])
    if cp.get('no_restart_with_deferral') and spec.get('deferred_types'):
        # what happens to deferred occurrences across stop()/start() is fixed by no property
        kinds = [k for k in kinds if k != 'T'] or ['P']
    for _ in range(n):
        k = draw(st.sampled_from(kinds))
        if k == 'P':
            ops.append(dict(op='P', pick=draw(pick()), val=draw(valuation()), scripts=draw(scripts(nev, cp.get('scripts')))))
        elif k == 'Q':
            ops.append(dict(op='Q', pick=draw(pick())))
        elif k == 'X':
            ops.append(dict(op='X', mode=draw(st.sampled_from(cp.get('xmodes', ['a', 's', 's']))), val=draw(valuation()),
                            scripts=draw(scripts(nev, cp.get('scripts')))))
        elif k == 'T':
            ops.append(dict(op='T', val=draw(valuation())))
            ops.append(dict(op='S', val=draw(valuation()), scripts={}))
        elif k in ('B', 'N', 'C', 'M'):
            ops.append(dict(op=k))
        elif k == 'W':
            ops.append(dict(op='W', obj=draw(st.integers(0, 3))))
        elif k == 'D':
            ops.append(dict(op='D', obj=draw(st.integers(0, 3))))
        elif k == 'A':
            ops.append(dict(op='A', dst=draw(st.integers(0, 3)), src=draw(st.integers(0, 3))))
        elif k == 'MA':
            ops.append(dict(op='MA', dst=draw(st.integers(0, 3)), src=draw(st.integers(0, 3))))
        elif k == 'V':
            ops.append(dict(op='V', fmt=draw(st.sampled_from(['t', 'b']))))
    if cp.get('final_stop') and draw(st.booleans()):
        ops.append(dict(op='T', val=0))
    return ops


@st.composite
def fault_case(draw, spec, cp):
    """prefix ops + one designated fault operation + continuation ops"""
    nev = len([e for e in spec['events'] if not e.get('kleene')])
    ops = [dict(op='S', val=draw(valuation()), scripts={})]
    kinds = cp.get('kinds', ['P'])
    def one(allow_scripts):
        k = draw(st.sampled_from(kinds))
        if k == 'P':
            return dict(op='P', pick=draw(pick()), val=draw(valuation()), scripts=draw(scripts(nev, allow_scripts)))
        if k == 'Q':
            return dict(op='Q', pick=draw(pick()))
        return dict(op='X', mode=draw(st.sampled_from(['a', 's'])), val=draw(valuation()), scripts={})
    for _ in range(draw(st.integers(0, cp.get('max_prefix', 8)))):
        ops.append(one(cp.get('scripts')))
    f = dict(op='P', pick=draw(pick()), val=draw(valuation()), scripts=draw(scripts(nev, cp.get('scripts'))), fault=True)
    if 'X' in kinds and draw(st.integers(0, 5)) == 0:
        f = dict(op='X', mode=draw(st.sampled_from(['a', 's'])), val=draw(valuation()), scripts={}, fault=True)
    ops.append(f)
    for _ in range(draw(st.integers(1, cp.get('max_cont', 5)))):
        ops.append(one(cp.get('cont_scripts')))
    return ops


@st.composite
def serial_case(draw, spec, cp):
    """history, save/load into a fresh object at quiescent points with empty queues (text and binary archives), then
    continuations of original and loaded objects"""
    ops = [dict(op='S', val=draw(valuation()), scripts={})]
    live = [0]
    nobj = 1
    for _ in range(draw(st.integers(1, cp.get('max_ops', 20)))):
        kind = draw(st.sampled_from(['d', 'd', 'd', 'd', 'd', 'v', 'w']))
        if kind == 'd':
            ops.append(dict(op='P', pick=draw(pick()), val=draw(valuation()), scripts={}))
        elif kind == 'v' and nobj < 4:
            ops.append(dict(op='V', fmt=draw(st.sampled_from(['t', 'b']))))
            live.append(nobj)
            nobj += 1
        elif kind == 'w' and len(live) > 1:
            ops.append(dict(op='W', obj=draw(st.sampled_from(live))))
    return ops


@st.composite
def copy_case(draw, spec, cp):
    """history on object 0, then copies / assignments / moves at arbitrary quiescent points with different continuations
    for original and copy (interleaved through switch operations)"""
    nev = len([e for e in spec['events'] if not e.get('kleene')])
    ops = [dict(op='S', val=draw(valuation()), scripts={})]
    live = [0]            # objects that may be driven
    nobj = 1
    cur = 0
    moves = cp.get('moves', False)
    def drive():
        k = draw(st.sampled_from(['P', 'P', 'P', 'Q', 'X', 'N']))
        if k == 'P':
            return dict(op='P', pick=draw(pick()), val=draw(valuation()), scripts=draw(scripts(nev, cp.get('scripts'))))
        if k == 'Q':
            return dict(op='Q', pick=draw(pick()))
        if k == 'X':
            return dict(op='X', mode=draw(st.sampled_from(['a', 's'])), val=draw(valuation()), scripts={})
        return dict(op='N')
    for _ in range(draw(st.integers(1, cp.get('max_ops', 20)))):
        kind = draw(st.sampled_from(['d', 'd', 'd', 'd', 'd', 'd', 'c', 'w', 'a', 'm', 'x']))
        if kind == 'd':
            ops.append(drive())
        elif kind == 'c' and nobj < 4:
            ops.append(dict(op='C'))
            live.append(nobj)
            nobj += 1
            if draw(st.booleans()):
                cur = nobj - 1          # go on with the copy at once (its memory, not only its configuration, must be the source's)
                ops.append(dict(op='W', obj=cur))
        elif kind == 'w' and len(live) > 1:
            cur = draw(st.sampled_from(live))
            ops.append(dict(op='W', obj=cur))
        elif kind == 'a' and len(live) > 1:
            dst = draw(st.sampled_from(live))
            src = draw(st.sampled_from(live))
            if dst != src:
                ops.append(dict(op='A', dst=dst, src=src))
        elif kind == 'm' and moves and nobj < 4:
            ops.append(dict(op='M'))
            live = [x for x in live if x != cur]
            live.append(nobj)
            cur = nobj
            ops.append(dict(op='W', obj=cur))
            nobj += 1
        elif kind == 'x' and len(live) > 1:
            victim = draw(st.sampled_from([x for x in live if x != cur] or [cur]))
            if victim != cur:
                ops.append(dict(op='D', obj=victim))
                live = [x for x in live if x != victim]
    return ops


class Exec:
    """lock-step execution of an abstract case: resolves picks against the SUT's observed configuration."""

    def __init__(self, spec, static, sut, auto_probe=False):
        self.auto_probe = auto_probe
        self.spec = spec
        self.static = static
        self.sut = sut
        self.nev_idx = [i for i, e in enumerate(spec['events']) if not e.get('kleene')]

    def resolve_ev(self, pk, ids):
        kind, k = pk
        if kind == 'en' and ids is not None:
            en = self.static.enabled_events(ids)
            if en:
                return en[k % len(en)]
        return self.nev_idx[k % len(self.nev_idx)]

    def run(self, acase, on_op=None):
        """returns (concrete case, list of per-op token lists). on_op(concrete_op, tokens) may return False to stop."""
        sut = self.sut
        sut.run('R')
        payload = 0
        ids = None
        concrete = []
        per_op = []
        for o in acase:
            c = dict(o)
            if 'pick' in c:
                c['ev'] = self.resolve_ev(c.pop('pick'), ids)
            if c['op'] in ('P', 'Q'):
                payload += 1
                c['payload'] = payload
            if c.get('scripts'):
                sc = {}
                for k, lst in sorted(c['scripts'].items(), key=lambda kv: int(kv[0])):
                    out = []
                    for e in lst:
                        if e[0] == 'p':
                            payload += 1
                            out.append(['p', self.nev_idx[e[1] % len(self.nev_idx)], payload, e[2]])
                        else:
                            out.append([e[0]])
                    sc[int(k)] = out
                c['scripts'] = sc
            line = cases.op_str(c)
            if self.auto_probe and c['op'] not in ('B', 'N'):
                line += ' B'
            try:
                toks = cases.normalise(sut.run(line), sut.idmap)
            except (SUT.SutCrash, SUT.SutHang) as e:
                e.concrete = concrete + [c]
                raise
            for t in reversed(toks):
                if t.startswith('ids{'):
                    ids = self.static.parse_ids(t)
                    break
            concrete.append(c)
            per_op.append(toks)
            if on_op is not None and on_op(c, toks) is False:
                break
        return concrete, per_op

    def replay(self, concrete):
        sut = self.sut
        sut.run('R')
        per_op = []
        for c in concrete:
            line = cases.op_str(c)
            if self.auto_probe and c['op'] not in ('B', 'N'):
                line += ' B'
            per_op.append(cases.normalise(sut.run(line), sut.idmap))
        return per_op


def crash_sig(e, concrete=None):
    """signature of a crash / hang; specific diagnosers for recorded findings"""
    if e.rc == 'hang':
        return 'hang'
    err = getattr(e, 'err', '') or ''
    has_throw = any(sc and sc[0] == 't' for c in (concrete or []) for lst in (c.get('scripts') or {}).values() for sc in lst)
    ops = [c['op'] for c in (concrete or [])]
    cfg = getattr(e, 'cfg', None)
    if cfg is not None and (cfg % 10) <= 4 and 'D' in ops and ('C' in ops or 'A' in ops) and ('Q' in ops or any(c.get('scripts') for c in (concrete or []))):
        # back/back11: pending functors of a copy are bound to the original; once the original is destroyed they dangle
        return 'back_pending_events_of_a_copy_run_on_the_original'
    if "state_id == current_state_id" in err and 'front::none' in err and has_throw:
        # backmp11: a completion occurrence pushed while a submachine was being entered survives an exception that aborts
        # the entry; it is executed later against a state that is not active (assertion in transition::execute)
        return 'mp11_stale_completion_occurrence_after_throw_in_entry'
    return 'crash'


def copy_refs(ex, concrete, per_op):
    """per-object histories of a copy case; every derived object is re-created on a fresh machine by replaying its history"""
    hist = {0: []}
    cur = 0
    for idx, c in enumerate(concrete):
        if idx >= len(per_op):
            break
        k = c['op']
        if k in ('C', 'M', 'V'):
            tag = [t for t in per_op[idx] if t.startswith('[%s' % k) and '->' in t]
            if tag:
                hist[int(tag[0].split('->')[1].rstrip(']'))] = list(hist.get(cur, []))
        elif k == 'A':
            if any(t.startswith('[A') and 'skip' not in t for t in per_op[idx]):
                hist[c['dst']] = list(hist.get(c['src'], []))
        elif k == 'W':
            if not any('skip' in t for t in per_op[idx]):
                cur = c['obj']
        elif k in ('S', 'T', 'P', 'Q', 'X', 'N'):
            hist.setdefault(cur, []).append(idx)
    refs = {}
    for obj, idxs in hist.items():
        if obj == 0:
            continue
        refs[obj] = (idxs, ex.replay([concrete[i] for i in idxs]))
    return dict(refs=refs, hist=hist)


def fault_baseline(ex, concrete, fi, k):
    base = [dict(c) for c in concrete]
    sc = {int(a): list(b) for a, b in (base[fi].get('scripts') or {}).items()}
    if k in sc:
        sc[k] = [x for x in sc[k] if x[0] != 't'] if sc[k].count(['t']) <= 1 else sc[k][:-1]
        if not sc[k]:
            del sc[k]
    base[fi]['scripts'] = sc
    return ex.replay(base)


class Violation(Exception):
    def __init__(self, msg, detail=None, sig=None):
        super().__init__(msg)
        self.msg = msg
        self.detail = detail or {}
        self.sig = sig


def model_ops(spec, concrete, dialect):
    """run the model op by op; returns list of per-op token lists (stops after an op the model cannot run)."""
    md = M.Model(spec, dialect)
    out = []
    for c in concrete:
        n0 = len(md.trace)
        cases.run_model(spec, [c], dialect, model=md)
        out.append(md.trace[n0:])
    return out, md


def run_job(job):
    """job: dict(spec, cfg, bin, prop, oracle (callable name), cp, max_examples, seed, flavor_env).
    Returns result dict (picklable)."""
    from . import oracles
    t0 = time.time()
    spec = job['spec']
    static = ST.Static(spec)
    oracle = getattr(oracles, job['oracle'])
    res = dict(spec=spec['id'], cfg=job['cfg'], evaluations=0, nontrivial=set(), classes={}, samples=[], failure=None,
               skipped=0, invalid=0)
    try:
        sut = SUT.Sut(job['bin'], env=job.get('env'))
    except Exception as e:
        res['error'] = 'cannot start SUT: %s' % e
        return res
    state = dict(sut=sut, last_fail=None)
    job = dict(job, idmap=sut.idmap)
    known = job.get('known_sigs', ())

    def body(acase):
        if state['sut'].dead:
            state['sut'] = SUT.Sut(job['bin'], env=job.get('env'))
        ex = Exec(spec, static, state['sut'], auto_probe=job['cp'].get('auto_probe', False))
        try:
            concrete, per_op = ex.run(acase)
        except (SUT.SutCrash, SUT.SutHang) as e:
            e.cfg = job['cfg']
            v = Violation('SUT crashed: rc=%s %s' % (e.rc, e.err[-600:]), sig=crash_sig(e, getattr(e, 'concrete', None)))
            if v.sig in known:
                res['classes']['excluded_known:' + v.sig] = res['classes'].get('excluded_known:' + v.sig, 0) + 1
                return
            if getattr(e, 'concrete', None):
                state['last_fail'] = dict(case=e.concrete, msg=v.msg, sig=v.sig)
            else:
                state['last_fail'] = dict(case=acase_to_json(acase), msg=v.msg, sig=v.sig, abstract=True)
            raise v
        variants = [(concrete, per_op, None)]
        if job.get('mode') == 'fault_enum':
            fi = [i for i, c in enumerate(concrete) if c.get('fault')]
            if fi:
                fi = fi[0]
                K = 0
                if fi < len(per_op):
                    for t in per_op[fi]:
                        pp_ = oracles.parse(t)
                        if pp_ and pp_[0] in ('g', 'a', 'en', 'ex', 'xc') and not (pp_[0] == 'g' and pp_[3] == 'none'):
                            K += 1
                variants = []
                for k in range(min(K, 40)):
                    ck = [dict(c) for c in concrete]
                    sc = dict(ck[fi].get('scripts') or {})
                    sc[k] = list(sc.get(k, [])) + [['t']]
                    ck[fi]['scripts'] = sc
                    try:
                        pk = ex.replay(ck)
                    except (SUT.SutCrash, SUT.SutHang) as e:
                        e.concrete = ck
                        v = Violation('SUT crashed: rc=%s %s' % (e.rc, e.err[-600:]), sig=crash_sig(e, ck))
                        state['sut'] = SUT.Sut(job['bin'], env=job.get('env'))
                        ex = Exec(spec, static, state['sut'], auto_probe=job['cp'].get('auto_probe', False))
                        if v.sig in known:
                            res['classes']['excluded_known:' + v.sig] = res['classes'].get('excluded_known:' + v.sig, 0) + 1
                            continue
                        state['last_fail'] = dict(case=ck, msg=v.msg, sig=v.sig)
                        raise v
                    variants.append((ck, pk, dict(fault_index=fi, k=k, baseline=per_op)))
                if not variants:
                    res['classes']['fault_op_without_callbacks'] = res['classes'].get('fault_op_without_callbacks', 0) + 1
        if job.get('mode') in ('copy', 'serial'):
            try:
                variants = [(concrete, per_op, copy_refs(ex, concrete, per_op))]
            except (SUT.SutCrash, SUT.SutHang) as e:
                state['sut'] = SUT.Sut(job['bin'], env=job.get('env'))
                variants = [(concrete, per_op, dict(refs={}, hist={}))]
        for (cc, pp, extra) in variants:
            res['evaluations'] += 1
            ctx = oracles.Ctx(spec, static, job['cfg'], cc, pp, job)
            ctx.extra = extra
            try:
                out = oracle(ctx)
            except Violation as v:
                if v.sig is not None and v.sig in known:
                    res['classes']['excluded_known:' + v.sig] = res['classes'].get('excluded_known:' + v.sig, 0) + 1
                    continue
                state['last_fail'] = dict(case=cc, msg=v.msg, sig=v.sig, detail=v.detail,
                                          mode=job.get('mode'), fault=(dict(fault_index=extra['fault_index'], k=extra['k']) if extra and 'k' in extra else None))
                raise
            for k in out.get('nontrivial', ()):
                res['nontrivial'].add(hash_key(k))
            for k, n in out.get('classes', {}).items():
                res['classes'][k] = res['classes'].get(k, 0) + n
            if len(res['samples']) < 3 and out.get('nontrivial'):
                res['samples'].append(cases.to_line(cc))
            if job.get('keep_cases') and out.get('nontrivial'):
                kept = state.setdefault('kept', [])
                prio = bool(out.get('classes', {}).get('fault_in_completion_transition'))
                if prio and sum(1 for x in kept if x[0]) < job['keep_cases']:
                    kept.insert(0, (True, cc))
                elif len(kept) < 2 * job['keep_cases']:
                    kept.append((False, cc))

    sd = int(hashlib.sha256(('%s/%s/%s/%s' % (job['seed'], spec['id'], job['cfg'], job['prop'])).encode()).hexdigest()[:8], 16)
    strat = fault_case(spec, job['cp']) if job.get('mode') == 'fault_enum' else (copy_case(spec, job['cp']) if job.get('mode') == 'copy' else (serial_case(spec, job['cp']) if job.get('mode') == 'serial' else abstract_case(spec, job['cp'])))
    test = given(strat)(body)
    test = seed(sd)(test)
    test = settings(max_examples=job['max_examples'], database=None, deadline=None, derandomize=False,
                    suppress_health_check=list(HealthCheck), phases=[Phase.generate, Phase.shrink],
                    report_multiple_bugs=False, print_blob=False)(test)
    try:
        test()
    except Violation as v:
        res['failure'] = state['last_fail']
    except Exception as e:
        res['error'] = 'harness error: %s\n%s' % (e, traceback.format_exc()[-3000:])
    try:
        state['sut'].close()
    except Exception:
        pass
    res['nontrivial'] = sorted(res['nontrivial'])
    res['kept'] = [c for _, c in state.get('kept', [])][:2 * job.get('keep_cases', 0)]
    res['wall_s'] = time.time() - t0
    return res


def hash_key(k):
    return int(hashlib.blake2b(repr(k).encode(), digest_size=8).hexdigest(), 16)


def acase_to_json(acase):
    return json.loads(json.dumps(acase, default=list))


def run_job_multi(job):
    """differential job: the same concrete case is driven into several configurations of one spec.
    job: dict(spec, bins={cfg: path}, prop, oracle, cp, max_examples, seed, known_sigs)"""
    from . import oracles
    t0 = time.time()
    spec = job['spec']
    static = ST.Static(spec)
    oracle = getattr(oracles, job['oracle'])
    cfgs = sorted(job['bins'])
    res = dict(spec=spec['id'], cfg=cfgs[0], cfgs=cfgs, evaluations=0, nontrivial=set(), classes={}, samples=[], failure=None)
    suts = {}
    try:
        for c in cfgs:
            suts[c] = SUT.Sut(job['bins'][c], env=job.get('env'))
    except Exception as e:
        res['error'] = 'cannot start SUT: %s' % e
        return res
    state = dict(last_fail=None)
    known = job.get('known_sigs', ())

    def body(acase):
        for c in cfgs:
            if suts[c].dead:
                suts[c] = SUT.Sut(job['bins'][c], env=job.get('env'))
        base = cfgs[0]
        concrete = None
        try:
            concrete, per0 = Exec(spec, static, suts[base], auto_probe=job['cp'].get('auto_probe', False)).run(acase)
            runs = {base: per0}
            for c in cfgs[1:]:
                runs[c] = Exec(spec, static, suts[c], auto_probe=job['cp'].get('auto_probe', False)).replay(concrete)
        except (SUT.SutCrash, SUT.SutHang) as e:
            if concrete is not None and not getattr(e, 'concrete', None):
                e.concrete = concrete
            v = Violation('SUT crashed: rc=%s %s' % (e.rc, e.err[-600:]), sig=crash_sig(e, getattr(e, 'concrete', None)))
            if v.sig in known:
                res['classes']['excluded_known:' + v.sig] = res['classes'].get('excluded_known:' + v.sig, 0) + 1
                return
            if getattr(e, 'concrete', None):
                state['last_fail'] = dict(case=e.concrete, msg=v.msg, sig=v.sig)
            else:
                state['last_fail'] = dict(case=acase_to_json(acase), msg=v.msg, sig=v.sig, abstract=True)
            raise v
        res['evaluations'] += 1
        ctx = oracles.Ctx(spec, static, base, concrete, per0, job)
        ctx.runs = runs
        try:
            out = oracle(ctx)
        except Violation as v:
            if v.sig is not None and v.sig in known:
                res['classes']['excluded_known:' + v.sig] = res['classes'].get('excluded_known:' + v.sig, 0) + 1
                return
            state['last_fail'] = dict(case=concrete, msg=v.msg, sig=v.sig, detail=v.detail)
            raise
        for k in out.get('nontrivial', ()):
            res['nontrivial'].add(hash_key(k))
        for k, n in out.get('classes', {}).items():
            res['classes'][k] = res['classes'].get(k, 0) + n
        if len(res['samples']) < 3 and out.get('nontrivial'):
            res['samples'].append(cases.to_line(concrete))

    sd = int(hashlib.sha256(('%s/%s/multi/%s' % (job['seed'], spec['id'], job['prop'])).encode()).hexdigest()[:8], 16)
    test = given(abstract_case(spec, job['cp']))(body)
    test = seed(sd)(test)
    test = settings(max_examples=job['max_examples'], database=None, deadline=None, derandomize=False,
                    suppress_health_check=list(HealthCheck), phases=[Phase.generate, Phase.shrink],
                    report_multiple_bugs=False, print_blob=False)(test)
    try:
        test()
    except Violation as v:
        res['failure'] = state['last_fail']
    except Exception as e:
        res['error'] = 'harness error: %s\n%s' % (e, traceback.format_exc()[-3000:])
    for c in cfgs:
        try:
            suts[c].close()
        except Exception:
            pass
    res['nontrivial'] = sorted(res['nontrivial'])
    res['kept'] = []
    res['wall_s'] = time.time() - t0
    return res
