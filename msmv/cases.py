"""Cases: operation histories. Encoding to the SUT line protocol, execution on the model, trace normalisation."""
import re
from . import model as M
from . import spec as S

# op := {'op':'S'|'T', 'val':int, 'scripts':{k:[script,...]}}
#     | {'op':'P','ev':int,'payload':int,'val':int,'scripts':{...}}
#     | {'op':'Q','ev':int,'payload':int} | {'op':'X','mode':'a'|'s','val':int}
#     | {'op':'B'} | {'op':'N'} | {'op':'C'} | {'op':'A','dst':i,'src':j} | {'op':'M'} | {'op':'MA',...}
#     | {'op':'W','obj':i} | {'op':'D','obj':i} | {'op':'V','fmt':'t'|'b'}
# script := ['t'] | ['b'] | ['p', ev, payload, how]


def scripts_str(scripts):
    if not scripts:
        return ''
    out = []
    for k in sorted(scripts, key=int):
        for sc in scripts[k]:
            if sc[0] == 'p':
                out.append('%d=p.%d.%d.%s' % (int(k), sc[1], sc[2], sc[3]))
            else:
                out.append('%d=%s' % (int(k), sc[0]))
    return ';' + ';'.join(out)


def op_str(o):
    k = o['op']
    if k in ('S', 'T'):
        return '%s:%x%s' % (k, o.get('val', 0), scripts_str(o.get('scripts')))
    if k == 'P':
        return 'P:%d:%d:%x%s' % (o['ev'], o['payload'], o.get('val', 0), scripts_str(o.get('scripts')))
    if k == 'Q':
        return 'Q:%d:%d' % (o['ev'], o['payload'])
    if k == 'RP':
        return 'RP:%d:%d:%x' % (o['ev'], o['n'], o.get('val', 0))
    if k == 'X':
        return 'X:%s:%x%s' % (o['mode'], o.get('val', 0), scripts_str(o.get('scripts')))
    if k in ('B', 'N', 'C', 'M'):
        return k
    if k in ('A', 'MA'):
        return '%s:%d:%d' % (k, o['dst'], o['src'])
    if k in ('W', 'D'):
        return '%s:%d' % (k, o['obj'])
    if k == 'V':
        return 'V:%s' % o['fmt']
    raise ValueError(o)


def to_line(case):
    return ' '.join(op_str(o) for o in case)


def norm_scripts(scripts):
    return {int(k): v for k, v in (scripts or {}).items()}


def run_model(spec, case, dialect='back', model=None):
    md = model or M.Model(spec, dialect)
    for o in case:
        k = o['op']
        if k == 'S':
            md.op_start(o.get('val', 0), norm_scripts(o.get('scripts')))
        elif k == 'T':
            md.op_stop(o.get('val', 0), norm_scripts(o.get('scripts')))
        elif k == 'P':
            md.op_process(o['ev'], o['payload'], o.get('val', 0), norm_scripts(o.get('scripts')))
        elif k == 'Q':
            md.op_enqueue(o['ev'], o['payload'])
        elif k == 'X':
            md.op_exec(o['mode'], o.get('val', 0), norm_scripts(o.get('scripts')))
        elif k == 'N':
            md.tok('pend=%d' % md.pending())
        elif k == 'B':
            md.tok('PB{}')
        else:
            raise ValueError('model cannot run op %r' % (o,))
    return md


_ids_re = re.compile(r'^ids\{(.*)\}$')


_any_re = re.compile(r'/any\(([^)]*)\)')


def normalise(trace, idmap):
    """SUT trace string -> token list with state ids replaced by names and result codes by classes."""
    rev = {mach: {v: k for k, v in d.items()} for mach, d in idmap.items()}
    out = []
    for t in trace.split(' '):
        if t.startswith(']='):
            code = int(t[2:])
            out.append(']=' + ('H' if code & 1 else ('Z' if code == 0 else 'N')))
        elif t.startswith('ids{'):
            body = t[4:-1]
            parts = []
            for p in body.split(';'):
                if not p:
                    continue
                mach, ids = p.split('=')
                names = [rev.get(mach, {}).get(int(i), '#%s' % i) for i in ids.split(',')]
                parts.append('%s=%s' % (mach, ','.join(names)))
            out.append('ids{' + ';'.join(parts) + ';}')
        elif t.startswith('nt:'):
            head, _, evd = t.partition('/')
            _, mach, sid = head.split(':')
            evd = _any_re.sub(r'/\1', '/' + evd)[1:]     # favor_compile_time passes the type-erased event
            out.append('nt:%s:%s/%s' % (mach, rev.get(mach, {}).get(int(sid), '#' + sid), evd))
        elif t.startswith('xc:'):
            out.append(_any_re.sub(r'/\1', t))
        elif t.startswith('PB{') or t.startswith('pb{'):
            # probe: keep the raw text but map the ids part
            body = t[3:-1]
            parts = []
            for p in body.split(';'):
                if not p:
                    continue
                k, _, v = p.partition('=')
                if k in rev and ':' not in k and not k.startswith(('v_', 'act', 'byid', 'fl')):
                    names = [rev[k].get(int(i), '#%s' % i) for i in v.split(',') if i != '']
                    parts.append('%s=%s' % (k, ','.join(names)))
                else:
                    parts.append(p)
            out.append(t[:3] + ';'.join(parts) + ';}')
        elif t.startswith('fired=') or t.startswith('xn='):
            continue
        else:
            out.append(t)
    return out


def split_ops(tokens):
    """split a token list into per-operation segments: list of (op token list)."""
    segs = []
    cur = []
    for t in tokens:
        if t.startswith('[') and cur and not cur[-1].startswith('!') and depth_zero(cur):
            segs.append(cur)
            cur = []
        cur.append(t)
    if cur:
        segs.append(cur)
    return segs


def depth_zero(seg):
    d = 0
    for t in seg:
        if t.startswith('['):
            d += 1
        if t.startswith(']'):
            d -= 1
    return d == 0


def parse_line(line):
    """inverse of to_line"""
    out = []
    for tok in line.split():
        sc = tok.split(';')
        f = sc[0].split(':')
        k = f[0]
        scripts = {}
        for s in sc[1:]:
            at, _, body = s.partition('=')
            b = body.split('.')
            if b[0] == 'p':
                scripts.setdefault(int(at), []).append(['p', int(b[1]), int(b[2]), b[3]])
            else:
                scripts.setdefault(int(at), []).append([b[0]])
        if k in ('S', 'T'):
            out.append(dict(op=k, val=int(f[1], 16) if len(f) > 1 else 0, scripts=scripts))
        elif k == 'P':
            out.append(dict(op='P', ev=int(f[1]), payload=int(f[2]), val=int(f[3], 16), scripts=scripts))
        elif k == 'Q':
            out.append(dict(op='Q', ev=int(f[1]), payload=int(f[2])))
        elif k == 'RP':
            out.append(dict(op='RP', ev=int(f[1]), n=int(f[2]), val=int(f[3], 16)))
        elif k == 'X':
            out.append(dict(op='X', mode=f[1], val=int(f[2], 16) if len(f) > 2 else 0, scripts=scripts))
        elif k in ('B', 'N', 'C', 'M'):
            out.append(dict(op=k))
        elif k in ('A', 'MA'):
            out.append(dict(op=k, dst=int(f[1]), src=int(f[2])))
        elif k in ('W', 'D'):
            out.append(dict(op=k, obj=int(f[1])))
        elif k == 'V':
            out.append(dict(op='V', fmt=f[1]))
        else:
            raise ValueError(tok)
    return out
