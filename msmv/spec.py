"""Spec helpers: walking a machine spec (plain dicts, JSON-serialisable).

spec = {id, profile, events:[{name, base?, kleene?}], flags:[...], nguards, nactions, root: machine, features:{...}}
machine = {name, history: 'none'|'always'|{'shallow':[ev]}, policy, regions:[[state,...],...],
           states:{name: state}, table:[row], internal:[row], activate_deferred: bool}
state = {kind: simple|sub|terminate|interrupt|explicit|entry_pt|exit_pt, flags:[], deferred:[], internal:[row],
         machine: machine (sub), end_events:[...] (interrupt), region:int (explicit/entry_pt), event: ev (exit_pt)}
row = {src: name | {'exit_pt':[sub,pt]}, ev: name|None, tgt: None | name | {'direct':[sub,[st,...]]} | {'entry_pt':[sub,pt]},
       guard: expr|None, actions: [int,...] | 'defer'}
expr = ['g',n] | ['not',e] | ['and',a,b] | ['or',a,b]
"""
import json, hashlib


def machines(spec):
    """Yield (machine, path) for every machine, pre-order; path = list of machine names from root."""
    def rec(m, path):
        p = path + [m['name']]
        yield m, p
        for sname in state_order(m):
            st = m['states'][sname]
            if st['kind'] == 'sub':
                yield from rec(st['machine'], p)
    yield from rec(spec['root'], [])


def state_order(m):
    out = []
    for reg in m['regions']:
        for s in reg:
            out.append(s)
    return out


def region_of(m, sname):
    for i, reg in enumerate(m['regions']):
        if sname in reg:
            return i
    raise KeyError(sname)


def all_states(spec):
    """Yield (state name, state dict, owning machine)."""
    for m, _ in machines(spec):
        for s in state_order(m):
            yield s, m['states'][s], m


def guard_atoms(expr, out=None):
    if out is None:
        out = []
    if expr is None:
        return out
    if expr[0] == 'g':
        out.append(expr[1])
    else:
        for e in expr[1:]:
            guard_atoms(e, out)
    return out


def spec_hash(spec):
    s = json.dumps({k: v for k, v in spec.items() if k != 'id'}, sort_keys=True)
    return hashlib.sha256(s.encode()).hexdigest()[:12]


def event_index(spec, name):
    for i, e in enumerate(spec['events']):
        if e['name'] == name:
            return i
    raise KeyError(name)


def event_bases(spec, name):
    """name and its public bases, most derived first."""
    out = []
    byname = {e['name']: e for e in spec['events']}
    cur = name
    while cur is not None:
        out.append(cur)
        cur = byname[cur].get('base')
    return out


def completion_guard_atoms(spec):
    """atoms used in guards of completion rows, mapped to their source state name."""
    out = {}
    for m, _ in machines(spec):
        for r in m['table']:
            if r['ev'] is None and r.get('guard') is not None:
                for a in guard_atoms(r['guard']):
                    out[a] = r['src']
    return out
