"""Alternative front-end emitters for property C14: the same (flat) machine spec written with
  - the basic front-end: row / a_row / g_row / _row / irow family with member functions, some rows through the row2 family
    (behaviours as member functions of the source state),
  - a PlantUML string (C++20): BOOST_MSM_PUML_DECLARE_TABLE with flag / entry / exit / terminate lines.
Both produce the same token trace as the functor emitter (emit.py) for the same case."""
from . import spec as S
from .emit import guard_cpp, action_cpp, POLICY


def guard_expr_cpp(g, call):
    """guard expression as a native C++ expression; call(n) renders one atom evaluation"""
    if g[0] == 'g':
        return call(g[1])
    if g[0] == 'not':
        return '!(%s)' % guard_expr_cpp(g[1], call)
    if g[0] == 'and':
        return '(%s && %s)' % (guard_expr_cpp(g[1], call), guard_expr_cpp(g[2], call))
    return '(%s || %s)' % (guard_expr_cpp(g[1], call), guard_expr_cpp(g[2], call))


def guard_expr_puml(g, top=True):
    """guard expression in the PlantUML text grammar (!, &&, ||, parentheses only where precedence needs them)"""
    prec = {'or': 1, 'and': 2, 'not': 3, 'g': 4}

    def rec(e, parent):
        k = e[0]
        if k == 'g':
            return 'g%d' % e[1]
        if k == 'not':
            inner = rec(e[1], 'not')
            return '!' + inner
        op = ' && ' if k == 'and' else ' || '
        s = rec(e[1], k) + op + rec(e[2], k)
        if prec[k] < prec[parent]:
            return '(' + s + ')'
        return s
    return rec(g, 'or')


def paren_depth_ok(g):
    """the PlantUML grammar documents one level of parentheses: reject expressions that would need nested ones"""
    txt = guard_expr_puml(g)
    d = m = 0
    for ch in txt:
        if ch == '(':
            d += 1
            m = max(m, d)
        elif ch == ')':
            d -= 1
    return m <= 1


COMMON_TAIL = r'''
template<class F> void with_event(int idx, int p, F&& f){
  switch(idx){
%(cases)s
  default: break; }
}
inline void dump_ids(Root& r, std::string& o){ o += "Root="; for(int i=0;i<%(nreg)d;i++){ if(i) o += ","; o += std::to_string(rt::api_id(r,i)); } o += ";"; }
inline std::string idmap(){ return "%(idmap)s"; }
inline void init_freeze(){
%(freeze)s
}
inline void setup_queues(Root& r){ (void)r;
#if CFG == 3
  r.get_message_queue().set_capacity(256);
#endif
}
inline size_t pending(Root& r){
#if CFG >= 5
  return r.pending();
#else
  return r.get_message_queue_size();
#endif
}
inline void probe_inside(Root& r, std::string& o){ dump_ids(r, o);
%(flagprobe)s
}
inline void probe_all(Root& r, std::string& o){ dump_ids(r, o);
%(flagprobe_all)s
}
} // namespace gen
namespace rt {
std::string describe_std_any(const std::any& a){
%(anycases)s
  return std::string("?"); }
std::string describe_boost_any(const boost::any& a){
%(banycases)s
  return std::string("?"); }
}
#include "rt_main.hpp"
int main(int argc, char** argv){ return rt::main_loop(argc, argv); }
'''


def common_tail(sp, evtype, idmap_text, flagtype, evtype_q=None):
    evtype_q = evtype_q or (lambda n: 'gen::' + evtype(n))
    cases = '\n'.join('  case %d: { %s e(p); f(e); break; }' % (i, evtype(e['name'])) for i, e in enumerate(sp['events']))
    cg = S.completion_guard_atoms(sp)
    sidx = {name: i for i, (name, st, m) in enumerate(S.all_states(sp))}
    fr = []
    if cg:
        fr.append('  auto& ft = rt::freeze().mask_by_state; ft.assign(%d, 0ULL);' % (len(sidx) + 2))
        for atom, src in sorted(cg.items()):
            fr.append('  ft[%d] |= (1ULL<<%d); rt::frozen_atoms() |= (1ULL<<%d);' % (sidx[src], atom, atom))
    fp = '\n'.join('  o += "%s=" + std::to_string((int)r.is_flag_active<%s>()) + ";";' % (f, flagtype(f)) for f in sp.get('flags', []))
    fpa = []
    for f in sp.get('flags', []):
        fpa.append('  o += "fl:Root:%s=" + std::to_string((int)r.is_flag_active<%s>());' % (f, flagtype(f)))
        fpa.append('#if CFG >= 5')
        fpa.append('  o += std::to_string((int)r.is_flag_active<%s, boost::msm::backmp11::flag_and>()) + ";";' % flagtype(f))
        fpa.append('#else')
        fpa.append('  o += std::to_string((int)r.is_flag_active<%s, Root::Flag_AND>()) + ";";' % flagtype(f))
        fpa.append('#endif')
    anyc = '\n'.join('  if (auto p = std::any_cast<%s>(&a)) return rt_describe(*p);' % evtype_q(e['name']) for e in sp['events'])
    banyc = '\n'.join('  if (auto p = boost::any_cast<%s>(&a)) return rt_describe(*p);' % evtype_q(e['name']) for e in sp['events'])
    return COMMON_TAIL % dict(cases=cases, nreg=len(sp['root']['regions']), idmap=idmap_text, freeze='\n'.join(fr),
                              flagprobe=fp, flagprobe_all='\n'.join(fpa), anycases=anyc, banycases=banyc)


def idmap_from_spec(sp):
    """the PlantUML variant has no nameable state types; ids come from the documented numbering (C03 checks that rule)"""
    from .static import documented_ids
    m = sp['root']
    # same numbering for all back-ends when every state occurs in the table (the profile guarantees it for flat machines)
    return None


# ------------------------------------------------------------------------------------------------ basic front-end
def emit_basic(sp):
    m = sp['root']
    assert all(st['kind'] != 'sub' for st in m['states'].values()), 'basic emitter handles flat machines'
    sidx = {name: i for i, (name, st, mm) in enumerate(S.all_states(sp))}
    sidx['Root'] = len(sidx)
    w = []
    w.append('// generated (basic front-end) from spec %s' % sp.get('id'))
    w.append('#include "rt.hpp"')
    w.append('namespace gen {')
    w.append('using namespace boost::msm::front;')
    for e in sp['events']:
        w.append('struct %s { int p; %s(int p_=0):p(p_){} };' % (e['name'], e['name']))
        w.append('inline std::string rt_describe(const %s& e){ return "%s#" + std::to_string(e.p); }' % (e['name'], e['name']))
    for f in sp.get('flags', []):
        w.append('struct %s {};' % f)
    w.append('template<int N> struct G { template<class Ev,class Fsm,class S,class T> bool operator()(Ev const& e,Fsm& f,S&,T&){ return rt::guard(N,e,f); } };')
    w.append('template<int N> struct A { template<class Ev,class Fsm,class S,class T> void operator()(Ev const& e,Fsm& f,S&,T&){ rt::action(N,e,f); } };')
    # which rows go through row2 (behaviours on the source state)
    use_row2 = {}
    for i, r in enumerate(m['table']):
        use_row2[i] = (i % 3 == 2) and isinstance(r['src'], str) and m['states'][r['src']]['kind'] == 'simple' and r.get('tgt') is not None
    by_state = {}
    for i, r in enumerate(m['table']):
        if use_row2[i]:
            by_state.setdefault(r['src'], []).append((i, r))
    # states
    for name in S.state_order(m):
        st = m['states'][name]
        base = {'simple': 'state<>', 'terminate': 'terminate_state<>'}[st['kind']]
        w.append('struct %s : %s {' % (name, base))
        if st.get('flags'):
            w.append('  typedef boost::mpl::vector<%s> flag_list;' % ','.join(st['flags']))
        w.append('  template<class Ev,class Fsm> void on_entry(Ev const& e, Fsm& f){ rt::entry(%d,"%s",this,e,f); }' % (sidx[name], name))
        w.append('  template<class Ev,class Fsm> void on_exit(Ev const& e, Fsm& f){ rt::exit_(%d,"%s",this,e,f); }' % (sidx[name], name))
        if st.get('internal'):
            rows = ['Internal<%s,%s,%s>' % (r['ev'] or 'none', action_cpp(r.get('actions')), guard_cpp(r.get('guard'))) for r in st['internal']]
            w.append('  struct internal_transition_table : boost::mpl::vector< %s > {};' % ', '.join(rows))
        for (i, r) in by_state.get(name, []):
            ev = r['ev'] or 'none'
            if r.get('actions'):
                w.append('  void act_%d(%s const& e){ %s }' % (i, ev, ' '.join('rt::action(%d,e,*this);' % a for a in r['actions'])))
            if r.get('guard') is not None:
                w.append('  bool grd_%d(%s const& e){ return %s; }' % (i, ev, guard_expr_cpp(r['guard'], lambda n: 'rt::guard(%d,e,*this)' % n)))
        w.append('};')
    w.append('struct Root_ : state_machine_def<Root_> {')
    w.append('  typedef Root_ p;')
    w.append('  template<class Ev,class Fsm> void on_entry(Ev const& e, Fsm& f){ rt::entry(%d,"Root",this,e,f); }' % sidx['Root'])
    w.append('  template<class Ev,class Fsm> void on_exit(Ev const& e, Fsm& f){ rt::exit_(%d,"Root",this,e,f); }' % sidx['Root'])
    w.append('  typedef boost::mpl::vector<%s> initial_state;' % ','.join(reg[0] for reg in m['regions']))
    rows = []
    for i, r in enumerate(m['table']):
        ev = r['ev'] or 'none'
        has_a = bool(r.get('actions'))
        has_g = r.get('guard') is not None
        if not use_row2[i]:
            if has_a:
                w.append('  void act_%d(%s const& e){ %s }' % (i, ev, ' '.join('rt::action(%d,e,*this);' % a for a in r['actions'])))
            if has_g:
                w.append('  bool grd_%d(%s const& e){ return %s; }' % (i, ev, guard_expr_cpp(r['guard'], lambda n: 'rt::guard(%d,e,*this)' % n)))
        src, tgt = r['src'], r.get('tgt')
        if tgt is None:
            kind = {(True, True): 'irow', (True, False): 'a_irow', (False, True): 'g_irow', (False, False): '_irow'}[(has_a, has_g)]
            args = [src, ev] + (['&p::act_%d' % i] if has_a else []) + (['&p::grd_%d' % i] if has_g else [])
        elif use_row2[i]:
            kind = {(True, True): 'row2', (True, False): 'a_row2', (False, True): 'g_row2', (False, False): '_row'}[(has_a, has_g)]
            args = [src, ev, tgt] + ([src, '&%s::act_%d' % (src, i)] if has_a else []) + ([src, '&%s::grd_%d' % (src, i)] if has_g else [])
        else:
            kind = {(True, True): 'row', (True, False): 'a_row', (False, True): 'g_row', (False, False): '_row'}[(has_a, has_g)]
            args = [src, ev, tgt] + (['&p::act_%d' % i] if has_a else []) + (['&p::grd_%d' % i] if has_g else [])
        rows.append('%s<%s>' % (kind, ','.join(args)))
    w.append('  struct transition_table : boost::mpl::vector<')
    w.append('    ' + ',\n    '.join(rows))
    w.append('  > {};')
    if m.get('internal'):
        irows = ['Internal<%s,%s,%s>' % (r['ev'] or 'none', action_cpp(r.get('actions')), guard_cpp(r.get('guard'))) for r in m['internal']]
        w.append('  struct internal_transition_table : boost::mpl::vector< %s > {};' % ', '.join(irows))
    w.append('  template<class Fsm,class Ev> void no_transition(Ev const& e, Fsm& f, int s){ rt::no_transition("Root", e, f, s); }')
    w.append('  template<class Fsm,class Ev> void exception_caught(Ev const& e, Fsm& f, std::exception& x){ rt::exception_caught("Root", e, f, x); }')
    from .static import explicit_creation_list
    expl = explicit_creation_list(m)
    if expl:
        w.append('  typedef boost::mpl::vector<%s> explicit_creation;' % ','.join(expl))
    w.append('};')
    w.append('#define RT_NOHIST_B boost::msm::back::NoHistory')
    w.append('#if CFG >= 5')
    w.append('typedef RT_BACK(Root_, int) Root;')
    w.append('#else')
    w.append('typedef RT_BACK(Root_, RT_NOHIST_B) Root;')
    w.append('#endif')
    from .static import documented_ids
    idm = lambda d: ''.join('Root:%s=%d;' % (s, i) for s, i in documented_ids(m, d).items())
    tail = common_tail(sp, lambda n: n, '__IDMAP__', lambda f: f)
    tail = tail.replace('inline std::string idmap(){ return "__IDMAP__"; }',
                        'inline std::string idmap(){\n#if CFG >= 5\n  return "%s";\n#else\n  return "%s";\n#endif\n}' % (idm('mp11'), idm('back')))
    return '\n'.join(w) + tail


# ------------------------------------------------------------------------------------------------ PlantUML front-end
def puml_names(sp):
    """names the states carry inside the PlantUML document. The lines that configure ONE state ('-> [*]', flag, entry, exit)
    must not leak to a state whose name is a suffix or a prefix of the named one, so the document uses such names on
    purpose: a terminate state T is called Q<V> and a flagged state P<V>x for other states V of the machine."""
    m = sp['root']
    order = S.state_order(m)
    pn = {n: n for n in order}
    plain = [n for n in order if m['states'][n]['kind'] != 'terminate']
    k = 0
    for n in order:
        st = m['states'][n]
        victims = [v for v in plain if v != n and pn[v] == v]
        if not victims:
            continue
        taken = set(pn.values())
        if st['kind'] == 'terminate':
            names = ['Q' + v for v in victims[k % len(victims):] + victims[:k % len(victims)]]
        elif st.get('flags') and k % 2 == 0:
            names = [v + 'x' for v in victims[k % len(victims):] + victims[:k % len(victims)]]
        else:
            continue
        names = [x for x in names if x not in taken]
        if names:
            pn[n] = names[0]
            k += 1
    assert len(set(pn.values())) == len(pn)
    return pn


def puml_text(sp, style=0):
    """PlantUML document for a flat spec. style selects arrow lengths / padding / part order (metamorphic variants)"""
    m = sp['root']
    pn = puml_names(sp)
    lines = ['@startuml Root', 'state Root{']
    pad = ['', ' ', '  ', '\t'][style % 4]
    for reg in m['regions']:
        lines.append('%s[*] -> %s' % (pad, pn[reg[0]]))
    for i, r in enumerate(m['table']):
        src, tgt = pn[r['src']], (pn[r['tgt']] if r.get('tgt') is not None else None)
        arrow = '-' * (1 + (i + style) % 4) + '>'
        ev = r['ev'] or ''
        right = ''
        internal = tgt is None
        acts = ','.join('a%d' % a for a in (r.get('actions') or []))
        g = guard_expr_puml(r['guard']) if r.get('guard') is not None else ''
        apart = (' / ' + acts) if acts else ''
        gpart = (' [' + g + ']') if g else ''
        if style % 2 == 1 and apart and gpart:
            body = gpart + apart
        else:
            body = apart + gpart
        line = '%s%s %s %s' % (pad, src, arrow, src if internal else tgt)
        line += ' : %s%s%s' % ('-' if internal else '', ev, body)
        lines.append(line)
    for name in S.state_order(m):
        st = m['states'][name]
        if st['kind'] == 'terminate':
            lines.append('%s%s -> [*]' % (pad, pn[name]))
    for name in S.state_order(m):
        st = m['states'][name]
        for f in st.get('flags') or []:
            lines.append('%s%s : flag %s' % (pad, pn[name], f))
        lines.append('%s%s : entry en_%s' % (pad, pn[name], name))
        lines.append('%s%s : exit ex_%s' % (pad, pn[name], name))
    lines += ['}', '@enduml']
    return '\n'.join(lines) + '\n'


def emit_puml(sp, style=0):
    m = sp['root']
    sidx = {name: i for i, (name, st, mm) in enumerate(S.all_states(sp))}
    sidx['Root'] = len(sidx)
    w = []
    w.append('// generated (PlantUML front-end) from spec %s' % sp.get('id'))
    w.append('#include <boost/msm/front/puml/puml.hpp>')
    w.append('#include "rt.hpp"')
    w.append('namespace boost::msm::front::puml {')
    for e in sp['events']:
        w.append('template<> struct Event<by_name("%s")> { int p; Event(int p_=0):p(p_){} };' % e['name'])
        w.append('inline std::string rt_describe(const Event<by_name("%s")>& e){ return "%s#" + std::to_string(e.p); }' % (e['name'], e['name']))
    natoms = sp.get('nguards', 60)
    atoms = set()
    acts = set()
    for r in m['table']:
        atoms.update(S.guard_atoms(r.get('guard')))
        acts.update(r.get('actions') or [])
    for n in sorted(atoms):
        w.append('template<> struct Guard<by_name("g%d")> { template<class Ev,class Fsm,class S,class T> bool operator()(Ev const& e,Fsm& f,S&,T&){ return rt::guard(%d,e,f); } };' % (n, n))
    for n in sorted(acts):
        w.append('template<> struct Action<by_name("a%d")> { template<class Ev,class Fsm,class S,class T> void operator()(Ev const& e,Fsm& f,S&,T&){ rt::action(%d,e,f); } };' % (n, n))
    for name in S.state_order(m):
        w.append('template<> struct Action<by_name("en_%s")> { template<class Ev,class Fsm,class S,class T> void operator()(Ev const& e,Fsm& f,S& s,T&){ rt::entry(%d,"%s",&s,e,f); } };' % (name, sidx[name], name))
        w.append('template<> struct Action<by_name("ex_%s")> { template<class Ev,class Fsm,class S,class T> void operator()(Ev const& e,Fsm& f,S& s,T&){ rt::exit_(%d,"%s",&s,e,f); } };' % (name, sidx[name], name))
    w.append('}')
    w.append('namespace gen {')
    w.append('using namespace boost::msm::front;')
    w.append('using namespace boost::msm::front::puml;')
    w.append('struct Root_ : state_machine_def<Root_> {')
    w.append('  template<class Ev,class Fsm> void on_entry(Ev const& e, Fsm& f){ rt::entry(%d,"Root",this,e,f); }' % sidx['Root'])
    w.append('  template<class Ev,class Fsm> void on_exit(Ev const& e, Fsm& f){ rt::exit_(%d,"Root",this,e,f); }' % sidx['Root'])
    w.append('  BOOST_MSM_PUML_DECLARE_TABLE(R"(')
    w.append(puml_text(sp, style))
    w.append(')")')
    w.append('  template<class Fsm,class Ev> void no_transition(Ev const& e, Fsm& f, int s){ rt::no_transition("Root", e, f, s); }')
    w.append('  template<class Fsm,class Ev> void exception_caught(Ev const& e, Fsm& f, std::exception& x){ rt::exception_caught("Root", e, f, x); }')
    w.append('};')
    w.append('#if CFG >= 5')
    w.append('typedef RT_BACK(Root_, int) Root;')
    w.append('#else')
    w.append('typedef RT_BACK(Root_, boost::msm::back::NoHistory) Root;')
    w.append('#endif')
    from .static import documented_ids, explicit_creation_list
    gone = set(explicit_creation_list(m))      # a state that occurs in no row and is not initial does not exist in a PlantUML machine
    m2 = dict(m, regions=[[s for s in reg if s not in gone] for reg in m['regions']])
    idm = lambda d: ''.join('Root:%s=%d;' % (s, i) for s, i in documented_ids(m2, d).items())
    tail = common_tail(sp, lambda n: 'Event<by_name("%s")>' % n, '__IDMAP__', lambda f: 'Flag<by_name("%s")>' % f,
                       lambda n: 'boost::msm::front::puml::Event<boost::msm::front::puml::by_name("%s")>' % n)
    tail = tail.replace('inline std::string idmap(){ return "__IDMAP__"; }',
                        'inline std::string idmap(){\n#if CFG >= 5\n  return "%s";\n#else\n  return "%s";\n#endif\n}' % (idm('mp11'), idm('back')))
    return '\n'.join(w) + tail


# ------------------------------------------------------------------------------------------------ eUML front-end
def guard_expr_euml(g):
    if g[0] == 'g':
        return 'g%d' % g[1]
    if g[0] == 'not':
        return '!(%s)' % guard_expr_euml(g[1])
    if g[0] == 'and':
        return '(%s && %s)' % (guard_expr_euml(g[1]), guard_expr_euml(g[2]))
    return '(%s || %s)' % (guard_expr_euml(g[1]), guard_expr_euml(g[2]))


def emit_euml(sp):
    """eUML transition-table expression (back / back11 only; backmp11 dropped eUML)"""
    m = sp['root']
    sidx = {name: i for i, (name, st, mm) in enumerate(S.all_states(sp))}
    sidx['Root'] = len(sidx)
    w = []
    w.append('// generated (eUML front-end) from spec %s' % sp.get('id'))
    w.append('#define BOOST_MPL_CFG_NO_PREPROCESSED_HEADERS')
    w.append('#define BOOST_MPL_LIMIT_VECTOR_SIZE 30')
    w.append('#define BOOST_MPL_LIMIT_MAP_SIZE 30')
    w.append('#define FUSION_MAX_VECTOR_SIZE 20')
    w.append('#include "rt.hpp"')
    w.append('#include <boost/msm/front/euml/euml.hpp>')
    w.append('namespace gen {')
    w.append('using namespace boost::msm::front::euml;')
    w.append('BOOST_MSM_EUML_DECLARE_ATTRIBUTE(int, pval)')
    w.append('BOOST_MSM_EUML_ATTRIBUTES((attributes_ << pval), ev_attrs)')
    for e in sp['events']:
        w.append('BOOST_MSM_EUML_EVENT_WITH_ATTRIBUTES(%s, ev_attrs)' % e['name'])
        w.append('inline std::string rt_describe(const %s_helper& e){ return "%s#" + std::to_string(e.get_attribute(pval)); }' % (e['name'], e['name']))
    for f in sp.get('flags', []):
        w.append('BOOST_MSM_EUML_FLAG(%s)' % f)
    atoms, acts = set(), set()
    for r in m['table']:
        atoms.update(S.guard_atoms(r.get('guard')))
        acts.update(r.get('actions') or [])
    for n in sorted(atoms):
        w.append('BOOST_MSM_EUML_ACTION(g%d){ template<class FSM,class EVT,class SS,class TS> bool operator()(EVT const& e, FSM& f, SS&, TS&){ return rt::guard(%d,e,f); } };' % (n, n))
    for n in sorted(acts):
        w.append('BOOST_MSM_EUML_ACTION(a%d){ template<class FSM,class EVT,class SS,class TS> void operator()(EVT const& e, FSM& f, SS&, TS&){ rt::action(%d,e,f); } };' % (n, n))
    for name in S.state_order(m) + ['Root']:
        w.append('BOOST_MSM_EUML_ACTION(en_%s){ template<class EVT,class FSM,class ST> void operator()(EVT const& e, FSM& f, ST& s){ rt::entry(%d,"%s",&s,e,f); } };' % (name, sidx[name], name))
        w.append('BOOST_MSM_EUML_ACTION(ex_%s){ template<class EVT,class FSM,class ST> void operator()(EVT const& e, FSM& f, ST& s){ rt::exit_(%d,"%s",&s,e,f); } };' % (name, sidx[name], name))
    for name in S.state_order(m):
        st = m['states'][name]
        cfg = 'configure_ << ' + ' << '.join(st['flags']) if st.get('flags') else 'configure_ << no_configure_'
        macro = 'BOOST_MSM_EUML_TERMINATE_STATE' if st['kind'] == 'terminate' else 'BOOST_MSM_EUML_STATE'
        w.append('%s((en_%s, ex_%s, attributes_ << no_attributes_, %s), %s)' % (macro, name, name, cfg, name))
    rows = []
    for r in m['table']:
        src, tgt, ev = r['src'], r.get('tgt'), r['ev']
        left = ('%s == %s' % (tgt, src)) if tgt is not None else src
        if ev is not None:
            left += ' + %s' % ev
        if r.get('guard') is not None:
            left += ' [%s]' % guard_expr_euml(r['guard'])
        a = r.get('actions') or []
        if len(a) == 1:
            left += ' / a%d' % a[0]
        elif len(a) > 1:
            left += ' / (%s)' % ', '.join('a%d' % x for x in a)
        rows.append('  ' + left)
    w.append('BOOST_MSM_EUML_TRANSITION_TABLE((')
    w.append(',\n'.join(rows))
    w.append('), transition_table)')
    w.append('BOOST_MSM_EUML_ACTION(NoTr){ template<class FSM,class EVT> void operator()(EVT const& e, FSM& f, int s){ rt::no_transition("Root", e, f, s); } };')
    w.append('BOOST_MSM_EUML_DECLARE_STATE_MACHINE((transition_table, init_ << %s, en_Root, ex_Root, attributes_ << no_attributes_, configure_ << no_configure_, NoTr), Root_)'
             % ' << '.join(reg[0] for reg in m['regions']))
    w.append('typedef RT_BACK(Root_, boost::msm::back::NoHistory) Root;')
    from .static import documented_ids, explicit_creation_list
    gone = set(explicit_creation_list(m))
    m2 = dict(m, regions=[[s for s in reg if s not in gone] for reg in m['regions']])
    idm = lambda d: ''.join('Root:%s=%d;' % (s, i) for s, i in documented_ids(m2, d).items())
    tail = common_tail(sp, lambda n: n + '_helper', '__IDMAP__', lambda f: 'BOOST_MSM_EUML_FLAG_NAME(%s)' % f)
    tail = tail.replace('inline std::string idmap(){ return "__IDMAP__"; }', 'inline std::string idmap(){ return "%s"; }' % idm('back'))
    return '\n'.join(w) + tail
