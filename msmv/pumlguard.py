"""C14 sub-check 3: PlantUML guard parser vs the C++ compiler.
Generates a C++20 TU with N random guard strings of the documented grammar (atoms, !, &&, ||, one level of
parentheses); each is parsed at compile time by detail::parse_guard into its functor type and evaluated over all
valuations of its atoms with logging atoms; the same text compiled as a native C++ expression over logging atoms
is the reference for precedence, associativity and short-circuit order."""
import random


def gen_term(r, atoms, allow_paren):
    k = r.random()
    if allow_paren and k < 0.3:
        inner = gen_flat(r, atoms, r.randint(2, 3), False)
        return ('!' if r.random() < 0.2 else '') + '(' + inner + ')'
    a = r.choice(atoms)
    return ('!' if r.random() < 0.3 else '') + a


def gen_flat(r, atoms, nterms, allow_paren):
    out = gen_term(r, atoms, allow_paren)
    for _ in range(nterms - 1):
        out += r.choice([' && ', ' || ', '&&', '||', '  &&  ', ' || ']) + gen_term(r, atoms, allow_paren)
    return out


def gen_exprs(seed, n):
    r = random.Random('pumlguard/%s' % seed)
    atoms = ['g%d' % i for i in range(5)]
    out = []
    seen = set()
    while len(out) < n:
        e = gen_flat(r, atoms, r.randint(1, 4), True)
        key = e.replace(' ', '')
        if key in seen:
            continue
        seen.add(key)
        out.append(e)
    return out


def nontrivial(e):
    ops = ('&&' in e) + ('||' in e) + ('!' in e)
    return ops >= 2 or '(' in e


def emit_tu(exprs):
    """The parsed functor type is walked by an evaluator that mirrors And_/Or_/Not_ (left to right, short-circuit) and
    looks atoms up by their name hash; an atom that is not one of g0..g4 (a token the parser split wrongly) is logged as
    'U' instead of stopping the compilation."""
    w = []
    w.append('#include <boost/msm/front/puml/puml.hpp>')
    w.append('#include <string>\n#include <cstdio>')
    w.append('static unsigned VAL; static std::string LOG;')
    w.append('using namespace boost::msm::front::puml;')
    w.append('static bool atom(std::uint32_t h){')
    for i in range(5):
        w.append('  if (h == by_name("g%d")) { LOG += "%d"; return (VAL >> %d) & 1; }' % (i, i, i))
    w.append('  LOG += "U"; return false; }')
    w.append('template<class G> struct Ev;')
    w.append('template<std::uint32_t h> struct Ev<Guard<h> > { static bool run(){ return atom(h); } };')
    w.append('template<> struct Ev<boost::msm::front::none> { static bool run(){ LOG += "N"; return true; } };')
    w.append('template<class A, class B> struct Ev<boost::msm::front::And_<A,B> > { static bool run(){ return Ev<A>::run() && Ev<B>::run(); } };')
    w.append('template<class A, class B> struct Ev<boost::msm::front::Or_<A,B> > { static bool run(){ return Ev<A>::run() || Ev<B>::run(); } };')
    w.append('template<class A> struct Ev<boost::msm::front::Not_<A> > { static bool run(){ return !Ev<A>::run(); } };')
    for i in range(5):
        w.append('static bool g%d(){ LOG += "%d"; return (VAL >> %d) & 1; }' % (i, i, i))
    w.append('template<class G> static std::string run_parsed(unsigned v){ VAL = v; LOG.clear(); bool r = Ev<G>::run(); return LOG + (r ? "T" : "F"); }')
    w.append('int main(){ int bad = 0;')
    for k, e in enumerate(exprs):
        native = e
        for i in range(5):
            native = native.replace('g%d' % i, 'g%d()' % i)
        w.append('  { using G = decltype(detail::parse_guard([](){ return std::string_view("%s"); }));' % e)
        w.append('    int ok = 1; unsigned firstbad = 0; std::string a, b;')
        w.append('    for (unsigned v = 0; v < 32; ++v) { std::string p = run_parsed<G>(v); VAL = v; LOG.clear(); bool r = (%s); std::string n = LOG + (r ? "T" : "F"); if (p != n && ok) { ok = 0; firstbad = v; a = p; b = n; } }' % native)
        w.append('    if (ok) std::printf("OK %d\\n"); else { ++bad; std::printf("FAIL %d valuation=%%u parsed=%%s native=%%s\\n", firstbad, a.c_str(), b.c_str()); } }' % (k, k))
    w.append('  return 0; }')
    return '\n'.join(w) + '\n'
