"""Seeded generator of well-formed machine specs. Pure function of (profile, seed, index).
Construction only (no rejection sampling). Bounds imposed by the code: <= 20 rows and <= 10 states per
machine level (default mpl::vector / fusion limits), depth <= 3, <= 3 regions per level, <= 60 guard atoms."""
import random, copy
from . import spec as S

MAX_ROWS = 20
MAX_ATOMS = 60

DEFAULTS = dict(
    depth=(1, 3), regions=(1, 3), states_per_region=(2, 3), nevents=(3, 5),
    row_weights=(0, 0, 1, 1, 2, 3), guard_none=0.2, guard_composite=0.3, internal_row=0.1,
    state_internal=0.3, sm_internal=0.3, completion=0.0, history=0.0, pseudo=0.0,
    deferral=0.0, flags=0.0, blocking=0.0, hierarchy_events=0.0, kleene=0.0,
    scripts=False, outer_rows_on_sub=0.8, policy='default', serialize=False,
    subs_per_level=(1, 1), action_max=2, row_budget=18, visitable=False, terminate_only=False, puml_guards=False, nested_deferral=False,
    pseudo_kinds=('explicit', 'fork', 'entry_pt', 'exit_pt'), unique_rows=False,
)

PROFILES = {
    'core': dict(smi_conflict=0.7),
    'core_flat': dict(depth=(1, 1)),
    'core_smi': dict(depth=(1, 2), sm_internal=1.0, smi_conflict=0.8, smi_rows=[2, 2, 3], scripts=True),
    'hier': dict(depth=(2, 3), regions=(1, 2), smi_conflict=0.7),
    'hier_sparse': dict(depth=(3, 3), regions=(1, 2), nevents=(6, 6), sparse_events=True, sub_initial=0.8, states_per_region=(2, 2),
                        row_weights=(0, 1, 1, 2, 2, 3)),
    'completion': dict(completion=0.6, state_internal=0.0, sm_internal=0.0, depth=(1, 2)),
    'completion_defer': dict(completion=0.6, deferral=1.0, state_internal=0.0, sm_internal=0.0, depth=(1, 1), regions=(2, 3), row_budget=14),
    'completion_sub': dict(sub_initial=0.8, sub_first_region=True, completion=0.9, state_internal=0.0, sm_internal=0.0, depth=(2, 2), regions=(2, 3), row_budget=12, subs_per_level=(1, 2)),
    'history': dict(history=1.0, depth=(2, 2), row_budget=13, state_internal=0.0, sm_internal=0.0, regions=(1, 3)),
    'hist_explicit': dict(pseudo=1.0, history=1.0, pseudo_kinds=('explicit', 'fork', 'entry_pt'), row_budget=9, states_per_region=(2, 3),
                          depth=(2, 2), state_internal=0.0, sm_internal=0.0, regions=(2, 3)),
    'pseudo_nc': dict(pseudo=1.0, history=0.5, pseudo_kinds=('explicit', 'fork', 'entry_pt'), row_budget=9, states_per_region=(2, 3),
                      depth=(2, 2), state_internal=0.0, sm_internal=0.0, regions=(1, 3), unique_rows=True, guard_none=0.4),
    'pseudo': dict(pseudo=1.0, history=0.4, twin_exit=0.5, row_budget=10, states_per_region=(2, 2), depth=(2, 3), state_internal=0.0, sm_internal=0.0, regions=(1, 3)),
    'intro': dict(depth=(1, 3), regions=(1, 3), completion=0.3, history=0.5, pseudo=0.6, row_budget=10, states_per_region=(2, 3),
                  state_internal=0.2, sm_internal=0.0, scripts=True, visitable=True, root_history=0.4),
    'intro_roothist': dict(history_kinds=['always'], depth=(1, 2), regions=(1, 3), completion=0.3, history=0.5, pseudo=0.6, row_budget=10, states_per_region=(2, 3),
                  state_internal=0.2, sm_internal=0.0, scripts=True, visitable=True, root_history=1.0),
    'common': dict(depth=(1, 3), regions=(1, 3), completion=0.3, history=0.4, pseudo=0.4, row_budget=11, states_per_region=(2, 3),
                   state_internal=0.3, sm_internal=0.0, flags=0.5, blocking=0.25, deferral=0.4, scripts=True),
    'common_smi': dict(smi_conflict=0.7, depth=(1, 3), regions=(1, 3), completion=0.3, history=0.4, pseudo=0.4, row_budget=11, states_per_region=(2, 3),
                   state_internal=0.3, sm_internal=0.7, flags=0.5, blocking=0.25, deferral=0.4, scripts=True),
    'frontlang': dict(depth=(1, 1), regions=(1, 3), states_per_region=(2, 3), guard_composite=0.7, guard_none=0.15, action_max=3,
                      state_internal=0.0, sm_internal=0.0, completion=0.3, flags=0.7, blocking=0.3, terminate_only=True,
                      internal_row=0.15, puml_guards=True, row_budget=16),
    'frontlang2': dict(depth=(1, 1), regions=(1, 3), states_per_region=(2, 3), guard_composite=0.7, guard_none=0.15, action_max=3,
                       state_internal=0.5, sm_internal=0.0, completion=0.3, flags=0.5, internal_row=0.15, row_budget=16),
    'copy_hist': dict(history_kinds=['shallow'], depth=(2, 2), regions=(1, 2), nevents=(3, 3), states_per_region=(2, 2), history=1.0, row_budget=8, state_internal=0.0,
                      sm_internal=0.0, guard_none=0.6, scripts=True),
    'copy': dict(depth=(1, 3), regions=(1, 2), completion=0.3, history=0.6, pseudo=0.5, row_budget=11, state_internal=0.2, sm_internal=0.0,
                 deferral=0.4, scripts=True),
    'serial': dict(depth=(1, 3), regions=(1, 3), history=0.7, pseudo=0.3, completion=0.2, row_budget=11, state_internal=0.2, sm_internal=0.0,
                   serialize=True),
    'events': dict(event_pad=0.6, depth=(1, 2), regions=(1, 2), hierarchy_events=1.0, kleene=0.7, nevents=(4, 5), state_internal=0.3, sm_internal=0.0,
                   row_weights=(0, 1, 1, 2, 2, 3)),
    'events_smi': dict(smi_wide=True, event_pad=0.6, depth=(1, 2), regions=(1, 2), hierarchy_events=1.0, kleene=0.7, nevents=(4, 5), state_internal=0.3, sm_internal=0.8,
                   row_weights=(0, 1, 1, 2, 2, 3)),
    'flags': dict(flags=1.0, depth=(1, 3), state_internal=0.0, sm_internal=0.0, scripts=True),
    'flags_deep': dict(flags=1.0, flag_deep=True, depth=(3, 3), regions=(1, 2), sub_initial=0.8, state_internal=0.0, sm_internal=0.0, scripts=True),
    'policy_after_entry': dict(action_none=0.4, guard_none=0.4, policy='after_entry', flags=0.7, depth=(1, 3), pseudo=0.3, row_budget=12, state_internal=0.2, sm_internal=0.0, scripts=True),
    'policy_after_action': dict(action_none=0.4, guard_none=0.4, policy='after_action', flags=0.7, depth=(1, 3), pseudo=0.3, row_budget=12, state_internal=0.2, sm_internal=0.0, scripts=True),
    'policy_after_exit': dict(action_none=0.4, guard_none=0.4, policy='after_exit', flags=0.7, depth=(1, 3), pseudo=0.3, row_budget=12, state_internal=0.2, sm_internal=0.0, scripts=True),
    'policy_before': dict(action_none=0.4, guard_none=0.4, policy='before', flags=0.7, depth=(1, 3), pseudo=0.3, row_budget=12, state_internal=0.2, sm_internal=0.0, scripts=True),
    'policy_default': dict(action_none=0.4, guard_none=0.4, policy='default', flags=0.7, depth=(1, 3), pseudo=0.3, row_budget=12, state_internal=0.2, sm_internal=0.0, scripts=True),
    'blocking': dict(joint_block=0.6, blocking=1.0, depth=(1, 1), regions=(1, 3), flags=0.5, state_internal=0.0, sm_internal=0.0, completion=0.25, scripts=True),
    'blocking_joint': dict(joint_block=1.0, both_blocking_kinds=True, blocking=1.0, depth=(1, 1), regions=(2, 3), states_per_region=(4, 4), row_budget=9, flags=0.5, state_internal=0.0, sm_internal=0.0, completion=0.6, scripts=True),
    'queue': dict(scripts=True, depth=(1, 2), regions=(1, 2), completion=0.2, state_internal=0.2, sm_internal=0.0),
    'defer': dict(deferral=1.0, scripts=True, depth=(1, 1), regions=(1, 3), completion=0.0, state_internal=0.0, sm_internal=0.0),
    'defer_cond': dict(defer_cond=0.7, deferral=1.0, scripts=True, depth=(1, 1), regions=(1, 3), completion=0.0, state_internal=0.0, sm_internal=0.0),
    'defer_act': dict(defer_action=0.7, deferral=1.0, scripts=True, depth=(1, 1), regions=(1, 3), completion=0.0, state_internal=0.0, sm_internal=0.0),
    'defer_nested': dict(deferral=1.0, nested_deferral=True, scripts=True, depth=(2, 2), regions=(1, 2), completion=0.0, state_internal=0.0,
                         sm_internal=0.0, row_budget=12),
    'defer_nested_outer': dict(outer_rows_on_deferred=True, defer_action=0.8, deferral=1.0, nested_deferral=True, scripts=True, depth=(2, 2), regions=(1, 2), completion=0.0, state_internal=0.0,
                         sm_internal=0.0, row_budget=12),
    'throw': dict(scripts=True, depth=(1, 2), regions=(1, 2), completion=0.2, state_internal=0.2, sm_internal=0.0),
    # flat on purpose: with a switch point before the entry phase a throw can leave a SUBmachine target "active" although it was
    # never entered; what such a machine does next is described by no property
    'throw_after_action': dict(action_none=0.4, guard_none=0.4, unique_rows=True, scripts=True, depth=(1, 1), regions=(1, 2), completion=0.2, state_internal=0.0, sm_internal=0.0, policy='after_action'),
    'throw_after_exit': dict(action_none=0.4, guard_none=0.4, unique_rows=True, scripts=True, depth=(1, 1), regions=(1, 2), completion=0.2, state_internal=0.0, sm_internal=0.0, policy='after_exit'),
    'throw_before': dict(action_none=0.4, guard_none=0.4, unique_rows=True, scripts=True, depth=(1, 1), regions=(1, 2), completion=0.2, state_internal=0.0, sm_internal=0.0, policy='before'),
}


class Gen:
    def __init__(self, profile, rnd):
        self.p = dict(DEFAULTS)
        self.p.update(PROFILES[profile] if isinstance(profile, str) else profile)
        self.profile = profile if isinstance(profile, str) else 'custom'
        self.r = rnd
        self.nstate = 0
        self.nmach = 0
        self.natom = 0
        self.nact = 0

    def ri(self, lohi):
        return self.r.randint(lohi[0], lohi[1])

    def atom(self):
        a = self.natom % MAX_ATOMS
        self.natom += 1
        return a

    def guard(self, allow_none=True):
        x = self.r.random()
        if self.natom + 4 > MAX_ATOMS:
            return None      # every guard atom is one bit of the per-step valuation and identifies its row: never reused
        if allow_none and x < self.p['guard_none']:
            return None
        if x < self.p['guard_none'] + self.p['guard_composite']:
            if self.p.get('puml_guards'):
                from .emit_fe import paren_depth_ok
                for _ in range(20):
                    save = self.natom
                    e = self.expr(2)
                    if paren_depth_ok(e):
                        return e
                    self.natom = save
                return ['g', self.atom()]
            return self.expr(2)
        return ['g', self.atom()]

    def expr(self, depth):
        if depth == 0 or self.r.random() < 0.3:
            return ['g', self.atom()]
        k = self.r.choice(['not', 'and', 'or', 'and', 'or'])
        if k == 'not':
            return ['not', self.expr(depth - 1)]
        return [k, self.expr(depth - 1), self.expr(depth - 1)]

    def actions(self):
        if self.p.get('action_none', 0) > 0 and self.r.random() < self.p['action_none']:
            return []           # balances the four row kinds (row, a_row, g_row, _row have separate code in back / back11)
        n = self.r.choice([0, 1, 1, 1, 2, 3, 2][: self.p['action_max'] + 3])
        out = []
        for _ in range(n):
            out.append(self.nact)
            self.nact += 1
        return out

    def actions_n(self, n):
        out = []
        for _ in range(n):
            out.append(self.nact)
            self.nact += 1
        return out

    def iactions(self):
        return self.actions() or self.actions_n(1)

    # ------------------------------------------------------------------
    def machine(self, level, depth, name, events):
        p = self.p
        r = self.r
        m = dict(name=name, history='none', policy=p['policy'], regions=[], states={}, table=[], internal=[])
        nreg = self.ri(p['regions'])
        nsub_left = self.ri(p['subs_per_level']) if level < depth else 0
        sub_slots = []
        for ri_ in range(nreg):
            n = self.ri(p['states_per_region'])
            reg = []
            for k in range(n):
                self.nstate += 1
                reg.append('S%d' % self.nstate)
            m['regions'].append(reg)
            for k, s in enumerate(reg):
                sub_slots.append((ri_, k, s))
        r.shuffle(sub_slots)
        if p.get('sub_initial', 0) > 0 and r.random() < p['sub_initial']:
            # submachines as initial states (of the first regions): the whole depth is active after start()
            sub_slots.sort(key=lambda t: (t[1] != 0, t[0]) if p.get('sub_first_region') else (t[1] != 0))
        # sparse profiles: a machine's own rows use only a few of the event types, so an event may be known to a nested level
        # and to the root but not to the level in between
        evs = events
        if p.get('sparse_events'):
            evs = sorted(r.sample(events, min(len(events), r.randint(2, 3))))
        subs = set()
        for (ri_, k, s) in sub_slots[:nsub_left]:
            subs.add(s)
        # rename sub states to M<n>
        for ri_, reg in enumerate(m['regions']):
            for k, s in enumerate(reg):
                if s in subs:
                    self.nmach += 1
                    nm = 'M%d' % self.nmach
                    reg[k] = nm
                    m['states'][nm] = dict(kind='sub', machine=self.machine(level + 1, depth, nm, events))
                else:
                    m['states'][s] = dict(kind='simple')
        # rows
        pairs = []
        for ri_, reg in enumerate(m['regions']):
            for s in reg:
                for e in evs:
                    pairs.append((ri_, s, e))
        r.shuffle(pairs)
        rows = []
        for (ri_, s, e) in pairs:
            st = m['states'][s]
            if st['kind'] == 'sub':
                k = r.choice([0, 1, 1, 2]) if r.random() < p['outer_rows_on_sub'] else 0
            else:
                k = r.choice(p['row_weights'])
            if p['unique_rows']:
                k = min(k, 1)       # no conflicting rows: back11 cannot compile const events through chained rows
            for _ in range(k):
                if len(rows) >= p['row_budget']:
                    break
                reg = m['regions'][ri_]
                if r.random() < p['internal_row']:
                    tgt = None
                else:
                    tgt = r.choice(reg)
                acts = self.actions()
                if tgt is None and not acts:
                    acts = self.actions_n(1)     # a taken internal row must be visible (C06 model-free oracle)
                rows.append(dict(src=s, ev=e, tgt=tgt, guard=self.guard(), actions=acts))
        # make sure every non-initial state is reachable-ish: add an unguarded row into it from the initial state
        for ri_, reg in enumerate(m['regions']):
            for s in reg[1:]:
                if not any(rw.get('tgt') == s and rw['src'] != s for rw in rows) and len(rows) < MAX_ROWS:
                    rows.append(dict(src=reg[0], ev=r.choice(evs), tgt=s, guard=None, actions=self.actions()))
        r.shuffle(rows)
        m['table'] = rows
        # state-internal tables
        for s, st in m['states'].items():
            if st['kind'] == 'simple' and r.random() < p['state_internal']:
                st['internal'] = [dict(ev=r.choice(evs), guard=self.guard(), actions=self.iactions())
                                  for _ in range(r.choice([1, 1, 2]))]
        if p.get('smi_wide') and r.random() < p['sm_internal']:
            # machine-level internal rows triggered by a base class or by the Kleene type (matched for every derived / other type)
            wide = [e for e in evs if e in ('E0', 'K')]
            m['internal'] = [dict(ev=r.choice(wide if r.random() < 0.8 else evs), guard=self.guard(), actions=self.iactions())
                             for _ in range(r.choice([1, 2, 2]))]
        elif r.random() < p['sm_internal']:
            m['internal'] = [dict(ev=r.choice(evs), guard=self.guard(), actions=self.iactions())
                             for _ in range(r.choice(p.get('smi_rows') or [1, 1, 2]))]
            if p.get('smi_conflict', 0) > 0 and len(m['internal']) >= 2 and r.random() < p['smi_conflict']:
                for rw in m['internal'][1:]:
                    rw['ev'] = m['internal'][0]['ev']      # conflicting machine-level internal rows: priority by position
        if p['completion'] > 0:
            self.add_completion(m)
        if (level > 1 and p['history'] > 0 and r.random() < p['history']) or (level == 1 and p.get('root_history', 0) > 0 and r.random() < p['root_history']):
            k = r.choice(p.get('history_kinds') or ['always', 'shallow', 'shallow'])
            if k == 'always':
                m['history'] = 'always'
            else:
                n = r.randint(1, max(1, len(events) // 2))
                m['history'] = dict(shallow=sorted(r.sample(events, n)))
        return m

    def add_completion(self, m):
        r = self.r
        p = self.p
        for reg in m['regions']:
            simple = [s for s in reg if m['states'][s]['kind'] == 'simple']
            for i, s in enumerate(reg):
                if m['states'][s]['kind'] != 'simple':
                    continue
                later = [t for t in reg[i + 1:]]
                if not later or r.random() > p['completion']:
                    continue
                for _ in range(r.choice([1, 1, 2])):
                    if len(m['table']) >= MAX_ROWS:
                        break
                    g = self.guard(allow_none=(r.random() < 0.5))
                    m['table'].insert(r.randint(0, len(m['table'])),
                                      dict(src=s, ev=None, tgt=r.choice(later), guard=g, actions=self.actions()))

    # ------------------------------------------------------------------
    def spec(self):
        p = self.p
        nev = self.ri(p['nevents'])
        events = ['E%d' % i for i in range(nev)]
        depth = self.ri(p['depth'])
        evdefs = [dict(name=e) for e in events]
        triggers = list(events)
        if p['hierarchy_events'] > 0:
            # single inheritance, 1-2 levels: E1 : E0, E2 : E1 (or E2 : E0)
            evdefs[1]['base'] = 'E0'
            if nev > 2:
                evdefs[2]['base'] = self.r.choice(['E1', 'E0'])
            if p.get('event_pad', 0) > 0:
                for k_ in (1, 2):
                    if k_ < nev and self.r.random() < p['event_pad']:
                        evdefs[k_]['pad'] = True
        if p['hierarchy_events'] > 0:
            for k_, e in enumerate(evdefs):
                e['body'] = self.r.choice([1, 7, 24, 60, 200])
        if p['kleene'] > 0 and self.r.random() < p['kleene']:
            evdefs.append(dict(name='K', kleene=True))
            triggers.append('K')
        root = self.machine(1, depth, 'Root', triggers)
        sp = dict(profile=self.profile, events=evdefs, flags=[], root=root,
                  features=dict(scripts=bool(p['scripts']), serialize=bool(p['serialize']), visitable=bool(p['visitable'])))
        if p['flags'] > 0:
            self.add_flags(sp)
        if p['blocking'] > 0 and self.r.random() < p['blocking']:
            self.add_blocking(sp)
            if p.get('joint_block', 0) > 0 and self.r.random() < p['joint_block']:
                self.add_joint_blocking(sp)
        if p['history'] > 0:
            self.ensure_sub_cycles(sp)
        if p['pseudo'] > 0 and self.r.random() < p['pseudo']:
            self.add_pseudo(sp)
        if p['deferral'] > 0 and self.r.random() < p['deferral'] and (p['deferral'] >= 1.0 or len(sp['root']['regions']) == 1):
            self.add_deferral(sp)
        if p['serialize']:
            for name, st, m in S.all_states(sp):
                if st['kind'] == 'sub':
                    st['machine']['serialize'] = self.r.random() < 0.6
                else:
                    st['serialize'] = self.r.random() < 0.6
            root['serialize'] = self.r.random() < 0.7
        sp['nguards'] = min(self.natom, MAX_ATOMS)
        sp['nactions'] = self.nact
        sp['features']['sm_internal'] = any(m.get('internal') for m, _ in S.machines(sp))
        if p.get('nested_deferral'):
            sp['features']['exclude_cfgs'] = [1, 2, 3, 4]      # back/back11 document deferral at the level of the receiving machine only
        sp['id'] = S.spec_hash(sp)
        return sp

    # ---- feature passes (each keeps the spec well-formed) ----------------
    def add_flags(self, sp):
        r = self.r
        nf = r.randint(1, 3)
        sp['flags'] = ['F%d' % i for i in range(nf)]
        for name, st, m in S.all_states(sp):
            if r.random() < 0.4:
                fl = sorted(r.sample(sp['flags'], r.randint(1, nf)))
                if st['kind'] == 'sub':
                    st['machine'].setdefault('as_state', {})['flags'] = fl
                else:
                    st['flags'] = fl
        if self.p.get('flag_deep'):
            # F0 is carried only two or more levels below the root: the machines in between own no state with it
            deep = []
            for mm, path in S.machines(sp):
                lvl = len(path) if hasattr(path, '__len__') else 0
                for sname, st in mm['states'].items():
                    holder = st['machine'].setdefault('as_state', {}) if st['kind'] == 'sub' else st
                    fl = [f for f in holder.get('flags', []) if f != 'F0']
                    if mm is not sp['root'] and self.depth_of(sp, mm) >= 3 and st['kind'] != 'sub':
                        deep.append(holder)
                    if fl:
                        holder['flags'] = fl
                    else:
                        holder.pop('flags', None)
            for holder in deep:
                if r.random() < 0.7:
                    holder['flags'] = sorted(set(holder.get('flags', [])) | {'F0'})

    def depth_of(self, sp, target):
        def rec(m, d):
            if m is target:
                return d
            for st in m['states'].values():
                if st['kind'] == 'sub':
                    x = rec(st['machine'], d + 1)
                    if x:
                        return x
            return 0
        return rec(sp['root'], 1)

    def add_blocking(self, sp):
        r = self.r
        m = sp['root']
        events = [e['name'] for e in sp['events'] if not e.get('kleene')]
        for reg in m['regions']:
            cand = [s for s in reg[1:] if m['states'][s]['kind'] == 'simple']
            if not cand or (r.random() < 0.2 and not self.p.get('both_blocking_kinds')):
                continue
            s = r.choice(cand)
            both = self.p.get('both_blocking_kinds')
            nblk = sum(1 for x in m['states'].values() if x['kind'] in ('terminate', 'interrupt'))
            if (both and nblk % 2 == 0) or (not both and r.random() < 0.5) or self.p.get('terminate_only'):
                m['states'][s]['kind'] = 'terminate'
            else:
                m['states'][s]['kind'] = 'interrupt'
                m['states'][s]['end_events'] = sorted(r.sample(events, r.choice([1, 1, 2])))
                # make sure there is a row leaving the interrupt state on an end event, and that every end event occurs in
                # the table (backmp11 favor_compile_time only recognises end-interrupt events that have a row: known finding)
                for k_, ee in enumerate(m['states'][s]['end_events']):
                    if k_ == 0 or not any(rw['ev'] == ee for rw in m['table']):
                        m['table'].append(dict(src=s, ev=ee, tgt=reg[0], guard=None if k_ == 0 else self.guard(), actions=self.actions()))
            # blocking states need no internal table and are no completion sources
            m['states'][s].pop('internal', None)
            m['table'] = [rw for rw in m['table'] if not (rw['src'] == s and rw['ev'] is None)]
            if m['states'][s]['kind'] == 'terminate':
                m['table'] = [rw for rw in m['table'] if rw['src'] != s]

    def add_joint_blocking(self, sp):
        """one event that moves several regions at once: one into a blocking state, the others into a blocking state of the
        other kind or into a state that has a completion transition (both blocking kinds active together, completion work
        pending when the machine becomes blocked)"""
        r = self.r
        m = sp['root']
        if len(m['regions']) < 2:
            return
        events = [e['name'] for e in sp['events'] if not e.get('kleene')]
        blk = [(ri, s) for ri, reg in enumerate(m['regions']) for s in reg if m['states'][s]['kind'] in ('terminate', 'interrupt')]
        if not blk:
            return
        e = r.choice(events)
        ri_b, sb = r.choice(blk)
        kind_b = m['states'][sb]['kind']
        def joint(ri, tgt):
            init = m['regions'][ri][0]
            m['table'] = [rw for rw in m['table'] if not (rw['src'] == init and rw['ev'] == e)]
            m['table'].append(dict(src=init, ev=e, tgt=tgt, guard=None, actions=self.actions()))
        joint(ri_b, sb)
        for ri, reg in enumerate(m['regions']):
            if ri == ri_b:
                continue
            other = [s for s in reg[1:] if m['states'][s]['kind'] in ('terminate', 'interrupt') and m['states'][s]['kind'] != kind_b]
            compl = [s for s in reg[1:] if any(rw['src'] == s and rw['ev'] is None for rw in m['table'])]
            rest = [s for s in reg[1:] if m['states'][s]['kind'] == 'simple']
            # a region in front of the blocking one rather gets a completion source (its completion work is pending when the
            # machine becomes blocked), a region behind it rather the other blocking kind
            pick = (compl or other or rest) if ri < ri_b else (other or compl or rest)
            if pick and (r.random() < 0.85 or self.p.get('both_blocking_kinds')):
                joint(ri, r.choice(pick))
        if self.p.get('both_blocking_kinds') and len(events) > 1:
            # a second joint event: a region in front gets a state with a completion transition, a region behind it blocks
            e2 = r.choice([x for x in events if x != e])
            done_ = False
            for rb in range(len(m['regions']) - 1, 0, -1):
                blk_b = [s for s in m['regions'][rb] if m['states'][s]['kind'] in ('terminate', 'interrupt')]
                if not blk_b or done_:
                    continue
                for ra in range(rb):
                    reg = m['regions'][ra]
                    cand = [(i_, s) for i_, s in enumerate(reg) if 0 < i_ < len(reg) - 1 and m['states'][s]['kind'] == 'simple'
                            and m['states'][reg[i_ + 1]]['kind'] == 'simple']
                    if not cand:
                        continue
                    i_, s = cand[0]
                    if not any(rw['src'] == s and rw['ev'] is None for rw in m['table']):
                        m['table'].append(dict(src=s, ev=None, tgt=reg[i_ + 1], guard=None, actions=self.actions_n(1)))
                    for (ri, tgt) in ((ra, s), (rb, blk_b[0])):
                        init = m['regions'][ri][0]
                        m['table'] = [rw for rw in m['table'] if not (rw['src'] == init and rw['ev'] == e2)]
                        m['table'].append(dict(src=init, ev=e2, tgt=tgt, guard=None, actions=self.actions()))
                    done_ = True
                    break
        # the transition table is an mpl::vector: keep it within the limit by dropping guarded ordinary rows
        while len(m['table']) > MAX_ROWS:
            drop = [k_ for k_, rw in enumerate(m['table']) if rw.get('guard') is not None and rw['ev'] is not None]
            if not drop:
                break
            m['table'].pop(drop[-1])

    def ensure_sub_cycles(self, sp):
        """history needs enter/exit cycles: every submachine gets rows entering it on >= 2 distinct events (for shallow
        history one listed and one not listed) and a row leaving it."""
        r = self.r
        events = [e['name'] for e in sp['events']]
        for m, path in list(S.machines(sp)):
            for sname in S.state_order(m):
                st = m['states'][sname]
                if st['kind'] != 'sub':
                    continue
                reg = m['regions'][S.region_of(m, sname)]
                others = [x for x in reg if x != sname and m['states'][x]['kind'] == 'simple']
                if not others:
                    continue
                h = st['machine'].get('history', 'none')
                listed = h['shallow'] if isinstance(h, dict) else []
                unlisted = [e for e in events if e not in listed] or events
                want = [r.choice(listed)] if listed else [r.choice(events)]
                want.append(r.choice(unlisted))
                for ev in want:
                    if len(m['table']) < MAX_ROWS:
                        m['table'].insert(r.randint(0, len(m['table'])),
                                          dict(src=r.choice(others), ev=ev, tgt=sname, guard=None, actions=self.actions()))
                if len(m['table']) < MAX_ROWS:
                    m['table'].insert(r.randint(0, len(m['table'])),
                                      dict(src=sname, ev=r.choice(events), tgt=r.choice(others), guard=self.guard(), actions=self.actions()))

    def add_pseudo(self, sp):
        """explicit entry, fork, entry point, exit point on submachines."""
        r = self.r
        events = [e['name'] for e in sp['events']]
        for m, path in list(S.machines(sp)):
            for sname in S.state_order(m):
                st = m['states'][sname]
                if st['kind'] != 'sub':
                    continue
                sub = st['machine']
                oreg = m['regions'][S.region_of(m, sname)]
                others = [x for x in oreg if x != sname and m['states'][x]['kind'] in ('simple', 'explicit')]
                if not others:
                    continue
                kinds = list(self.p['pseudo_kinds'])
                r.shuffle(kinds)
                hs = sub.get('history')
                listed = hs['shallow'] if isinstance(hs, dict) else []
                for kind in kinds[: r.randint(2, 4)]:
                    if len(m['table']) >= MAX_ROWS - 1 or len(sub['table']) >= MAX_ROWS - 2:
                        break
                    src = r.choice(others)
                    ev = r.choice(events)
                    if listed and r.random() < 0.6:
                        ev = r.choice(listed)       # explicit entries on a listed event: the other regions must follow the memory
                    if self.p['unique_rows']:
                        free = [(s_, e_) for s_ in others for e_ in events if not any(rw['src'] == s_ and rw['ev'] == e_ for rw in m['table'])]
                        if not free:
                            continue
                        src, ev = r.choice(free)
                    if kind == 'explicit':
                        ri_ = r.randrange(len(sub['regions']))
                        cands = [x for x in sub['regions'][ri_] if sub['states'][x]['kind'] in ('simple', 'explicit')]
                        if not cands:
                            continue
                        t = r.choice(cands)
                        sub['states'][t]['kind'] = 'explicit'
                        sub['states'][t]['region'] = ri_
                        m['table'].append(dict(src=src, ev=ev, tgt=dict(direct=[sname, [t]]), guard=self.guard(), actions=self.actions()))
                    elif kind == 'fork':
                        if len(sub['regions']) < 2:
                            continue
                        regs = sorted(r.sample(range(len(sub['regions'])), r.randint(2, len(sub['regions']))))
                        ts = []
                        for ri_ in regs:
                            cands = [x for x in sub['regions'][ri_] if sub['states'][x]['kind'] in ('simple', 'explicit')]
                            if not cands:
                                ts = None
                                break
                            t = r.choice(cands)
                            sub['states'][t]['kind'] = 'explicit'
                            sub['states'][t]['region'] = ri_
                            ts.append(t)
                        if not ts:
                            continue
                        m['table'].append(dict(src=src, ev=ev, tgt=dict(direct=[sname, ts]), guard=self.guard(), actions=self.actions()))
                    elif kind == 'entry_pt':
                        if sum(len(x) for x in sub['regions']) >= 9:
                            continue
                        ri_ = r.randrange(len(sub['regions']))
                        self.nstate += 1
                        pe = 'PE%d' % self.nstate
                        sub['regions'][ri_].append(pe)
                        sub['states'][pe] = dict(kind='entry_pt', region=ri_)
                        cands = [x for x in sub['regions'][ri_] if sub['states'][x]['kind'] in ('simple', 'explicit', 'sub')]
                        sub['table'].append(dict(src=pe, ev=ev, tgt=r.choice(cands), guard=None, actions=self.actions()))
                        m['table'].append(dict(src=src, ev=ev, tgt=dict(entry_pt=[sname, pe]), guard=self.guard(), actions=self.actions()))
                    elif kind == 'exit_pt':
                        if sum(len(x) for x in sub['regions']) >= 9:
                            continue
                        ri_ = r.randrange(len(sub['regions']))
                        self.nstate += 1
                        px = 'PX%d' % self.nstate
                        inner_ev = r.choice(events)
                        fwd = r.choice(events)
                        sub['regions'][ri_].append(px)
                        sub['states'][px] = dict(kind='exit_pt', event=fwd)
                        # an exit point is always the active state when its submachine is left: remembering it would
                        # re-enter the pseudo state with an unrelated event (outside what any property describes)
                        sub['history'] = 'none'
                        cands = [x for x in sub['regions'][ri_] if sub['states'][x]['kind'] in ('simple', 'explicit')]
                        sub['table'].append(dict(src=r.choice(cands), ev=inner_ev, tgt=px, guard=self.guard(), actions=self.actions()))
                        m['table'].append(dict(src=dict(exit_pt=[sname, px]), ev=fwd, tgt=r.choice(others), guard=None, actions=self.actions()))
                        # a second exit point forwarding the SAME event type, connected to its own outer row: the outer rows may
                        # only be told apart by which exit point is active
                        if (self.p.get('twin_exit', 0) > 0 and r.random() < self.p['twin_exit'] and sum(len(x) for x in sub['regions']) < 9
                                and len(m['table']) < MAX_ROWS - 1 and len(sub['table']) < MAX_ROWS - 2):
                            rj_ = r.randrange(len(sub['regions']))
                            self.nstate += 1
                            px2 = 'PX%d' % self.nstate
                            sub['regions'][rj_].append(px2)
                            sub['states'][px2] = dict(kind='exit_pt', event=fwd)
                            cands2 = [x for x in sub['regions'][rj_] if sub['states'][x]['kind'] in ('simple', 'explicit')]
                            sub['table'].append(dict(src=r.choice(cands2), ev=r.choice(events), tgt=px2, guard=self.guard(), actions=self.actions()))
                            m['table'].append(dict(src=dict(exit_pt=[sname, px2]), ev=fwd, tgt=r.choice(others), guard=None, actions=self.actions()))

    def add_deferral(self, sp):
        """Deferral inside the documented domain. back/back11: declared in the machine that receives the event (root); a
        deferring state has no row on the deferred event, and no state of a sibling region has one either (documented
        limitation). With p['nested_deferral'] (backmp11 only) substates and submachine states defer as well."""
        r = self.r
        m = sp['root']
        events = [e['name'] for e in sp['events'] if not e.get('kleene')]
        nd = r.randint(1, min(2, len(events) - 1))
        if self.p.get('nested_deferral'):
            nd = min(2, len(events) - 1)
        dev = sorted(r.sample(events, nd))
        sp['deferred_types'] = dev
        targets = [(m, True)]
        if self.p.get('nested_deferral'):
            for mm, path in S.machines(sp):
                if mm is not m:
                    targets.append((mm, False))
        for (mm, is_root) in targets:
            deferring_regions = []
            for ri, reg in enumerate(mm['regions']):
                cands = [s for s in reg if mm['states'][s]['kind'] in ('simple', 'sub') and (is_root or mm['states'][s]['kind'] == 'simple')]
                if not self.p.get('nested_deferral'):
                    cands = [s for s in cands if mm['states'][s]['kind'] == 'simple']
                r.shuffle(cands)
                if self.p.get('nested_deferral'):
                    # composite states first: a submachine state with its own deferred list around deferring substates
                    cands.sort(key=lambda x: 0 if mm['states'][x]['kind'] == 'sub' else 1)
                if not cands or (ri > 0 and r.random() < 0.5):
                    continue
                if deferring_regions and not self.p.get('nested_deferral'):
                    # back / back11 store an event once per deferring region (known finding
                    # back_event_stored_once_per_deferring_region): at most one region defers, so the search goes on behind it
                    continue
                k = r.randint(1, max(1, len(cands) - 1))
                for s in cands[:k]:
                    d = sorted(r.sample(dev, r.randint(1, nd)))
                    st = mm['states'][s]
                    if self.p.get('nested_deferral') and nd == 2:
                        d = [dev[0]] if st['kind'] == 'sub' else r.choice([[dev[1]], [dev[1]], dev])
                    if st['kind'] == 'sub':
                        st['machine'].setdefault('as_state', {})['deferred'] = d
                    else:
                        st['deferred'] = d
                    mm['table'] = [rw for rw in mm['table'] if not (rw['src'] == s and rw['ev'] in d)]
                    if st.get('internal'):
                        st['internal'] = [rw for rw in st['internal'] if rw['ev'] not in d]
                deferring_regions.append(ri)
            if deferring_regions:
                # sibling regions must not handle a deferred type (documented limitation of back; kept for all back-ends)
                for ri, reg in enumerate(mm['regions']):
                    for s in reg:
                        others_defer = [x for x in deferring_regions if x != ri]
                        if others_defer:
                            mm['table'] = [rw for rw in mm['table'] if not (isinstance(rw['src'], str) and rw['src'] == s and rw['ev'] in dev)]
                            st = mm['states'][s]
                            if st.get('internal'):
                                st['internal'] = [rw for rw in st['internal'] if rw['ev'] not in dev]
                mm['internal'] = [rw for rw in mm.get('internal', []) if rw['ev'] not in dev]
            # guarantee a way out of each deferring state
            for reg in mm['regions']:
                for s in reg:
                    st = mm['states'][s]
                    dd = st.get('deferred') or (st['kind'] == 'sub' and st['machine'].get('as_state', {}).get('deferred')) or []
                    if dd:
                        free = [e for e in events if e not in dev] or [e for e in events if e not in dd]
                        if not any(rw['src'] == s and rw.get('tgt') not in (None, s) and rw.get('guard') is None for rw in mm['table']) and len(mm['table']) < MAX_ROWS:
                            tg = [t for t in reg if t != s and mm['states'][t]['kind'] in ('simple', 'sub')]
                            if tg and free:
                                mm['table'].append(dict(src=s, ev=r.choice(free), tgt=r.choice(tg), guard=None, actions=self.actions()))
        if self.p.get('defer_action', 0) > 0:
            # the second deferral mechanism: an (unguarded) row with the Defer action instead of a deferred_events entry
            for (mm, is_root) in targets:
                for s, st in mm['states'].items():
                    if st['kind'] == 'sub' or not st.get('deferred'):
                        continue
                    keep = []
                    for e in st['deferred']:
                        if r.random() < self.p['defer_action'] and len(mm['table']) < MAX_ROWS:
                            mm['table'].insert(r.randint(0, len(mm['table'])), dict(src=s, ev=e, tgt=None, guard=None, actions='defer'))
                            mm['activate_deferred'] = True
                        else:
                            keep.append(e)
                    if keep:
                        st['deferred'] = keep
                    else:
                        st.pop('deferred')
        if self.p.get('defer_cond', 0) > 0:
            # backmp11 only: deferral of a listed type made conditional through is_event_deferred (a guard atom decides)
            for (mm, is_root) in targets:
                for s, st in mm['states'].items():
                    if st['kind'] == 'sub' or not st.get('deferred'):
                        continue
                    for e in st['deferred']:
                        if r.random() < self.p['defer_cond'] and self.natom < MAX_ATOMS:
                            st.setdefault('cond_defer', []).append([e, self.atom()])
            sp['features']['exclude_cfgs'] = [1, 2, 3, 4]
        if self.p.get('outer_rows_on_deferred'):
            # the enclosing machine has a row on the very event a substate defers through a Defer row (the deferral consumes
            # the event: the outer row must not fire)
            for mm, path in S.machines(sp):
                for sname, st in mm['states'].items():
                    if st['kind'] != 'sub':
                        continue
                    inner = sorted({rw['ev'] for rw in st['machine']['table'] if rw.get('actions') == 'defer'})
                    reg = mm['regions'][S.region_of(mm, sname)]
                    others = [x for x in reg if x != sname and mm['states'][x]['kind'] == 'simple']
                    listed = st['machine'].get('as_state', {}).get('deferred') or []
                    for e in inner:
                        if others and e not in listed and len(mm['table']) < MAX_ROWS and not any(rw['src'] == sname and rw['ev'] == e for rw in mm['table']):
                            mm['table'].append(dict(src=sname, ev=e, tgt=r.choice(others), guard=None, actions=self.actions_n(1)))
        if self.p.get('nested_deferral') and not self.p.get('outer_rows_on_deferred'):
            # submachines that contain deferring states: rows of enclosing levels on deferred types would contradict them
            for mm, path in S.machines(sp):
                mm['table'] = [rw for rw in mm['table'] if rw['ev'] not in dev or not isinstance(rw['src'], str) or mm['states'][rw['src']]['kind'] != 'sub']


def gen_spec(profile, seed, index=0):
    rnd = random.Random('%s/%s/%s' % (profile if isinstance(profile, str) else sorted(profile.items()), seed, index))
    return Gen(profile, rnd).spec()
