"""Emit an instrumented C++ translation unit (functor front-end) for a machine spec.
The TU is compiled once per back-end configuration (-DCFG=n)."""
from . import spec as S

POLICY = {
    'default': None,
    'after_entry': 'boost::msm::active_state_switch_after_entry',
    'after_action': 'boost::msm::active_state_switch_after_transition_action',
    'after_exit': 'boost::msm::active_state_switch_after_exit',
    'before': 'boost::msm::active_state_switch_before_transition',
}


def guard_cpp(e):
    if e is None:
        return 'none'
    if e[0] == 'g':
        return 'G<%d>' % e[1]
    if e[0] == 'not':
        return 'Not_<%s>' % guard_cpp(e[1])
    if e[0] == 'and':
        return 'And_<%s,%s>' % (guard_cpp(e[1]), guard_cpp(e[2]))
    if e[0] == 'or':
        return 'Or_<%s,%s>' % (guard_cpp(e[1]), guard_cpp(e[2]))
    raise ValueError(e)


def action_cpp(a):
    if a == 'defer':
        return 'Defer'
    if not a:
        return 'none'
    if len(a) == 1:
        return 'A<%d>' % a[0]
    return 'ActionSequence_<boost::mpl::vector<%s> >' % ','.join('A<%d>' % x for x in a)


def ev_cpp(spec, ev):
    if ev is None:
        return 'none'
    for e in spec['events']:
        if e['name'] == ev and e.get('kleene'):
            return 'KLEENE_T'
    return ev


class Emitter:
    def __init__(self, spec):
        self.spec = spec
        self.out = []
        self.sidx = {}
        for i, (name, st, m) in enumerate(S.all_states(spec)):
            self.sidx[name] = i
        self.sidx[spec['root']['name']] = len(self.sidx)
        self.feat = spec.get('features', {})

    def w(self, s=''):
        self.out.append(s)

    # ------------------------------------------------------------------
    def hist_back(self, m):
        h = m.get('history', 'none')
        if h == 'none':
            return 'RT_NOHIST'
        if h == 'always':
            return 'RT_ALWAYSHIST'
        return 'RT_SHALLOWHIST(%s)' % ','.join(h['shallow'])

    def hist_front(self, m):
        h = m.get('history', 'none')
        if h == 'none':
            return None
        if h == 'always':
            return 'boost::msm::front::always_shallow_history'
        return 'boost::msm::front::shallow_history<%s>' % ','.join(h['shallow'])

    def tgt_cpp(self, m, t):
        if t is None:
            return 'none'
        if isinstance(t, str):
            return t
        if 'direct' in t:
            sub, sts = t['direct']
            if len(sts) == 1:
                return '%s::direct<%s>' % (sub, sts[0])
            return 'boost::mpl::vector<%s>' % ','.join('%s::direct<%s>' % (sub, x) for x in sts)
        if 'entry_pt' in t:
            sub, pt = t['entry_pt']
            return '%s::entry_pt<%s>' % (sub, pt)
        raise ValueError(t)

    def src_cpp(self, m, s):
        if isinstance(s, str):
            return s
        sub, pt = s['exit_pt']
        return '%s::exit_pt<%s>' % (sub, pt)

    def row_cpp(self, m, r):
        return 'Row<%s,%s,%s,%s,%s>' % (self.src_cpp(m, r['src']), ev_cpp(self.spec, r['ev']),
                                        self.tgt_cpp(m, r.get('tgt')), action_cpp(r.get('actions')), guard_cpp(r.get('guard')))

    def irow_cpp(self, r):
        return 'Internal<%s,%s,%s>' % (ev_cpp(self.spec, r['ev']), action_cpp(r.get('actions')), guard_cpp(r.get('guard')))

    # ------------------------------------------------------------------
    def emit_state(self, name, st):
        k = st['kind']
        idx = self.sidx[name]
        vb = 'rt::VBase' if self.feat.get('visitable') else 'boost::msm::front::default_base_state'
        if k == 'simple':
            base = 'boost::msm::front::state<%s>' % vb
        elif k == 'terminate':
            base = 'boost::msm::front::terminate_state<%s>' % vb
        elif k == 'interrupt':
            ee = st['end_events']
            base = 'boost::msm::front::interrupt_state<%s,%s>' % (ee[0] if len(ee) == 1 else 'boost::mpl::vector<%s>' % ','.join(ee), vb)
        elif k == 'explicit':
            base = 'boost::msm::front::state<%s>, boost::msm::front::explicit_entry<%d>' % (vb, st['region'])
        elif k == 'entry_pt':
            base = 'boost::msm::front::entry_pseudo_state<%d,%s>' % (st['region'], vb)
        elif k == 'exit_pt':
            base = 'boost::msm::front::exit_pseudo_state<%s,%s>' % (st['event'], vb)
        else:
            raise ValueError(k)
        self.w('struct %s : %s {' % (name, base))
        self.w('  const char* rt_name() const %s{ return "%s"; }' % ('override ' if self.feat.get('visitable') else '', name))
        if st.get('flags'):
            self.w('  typedef boost::mpl::vector<%s> flag_list;' % ','.join(st['flags']))
        if st.get('deferred'):
            self.w('  typedef boost::mpl::vector<%s> deferred_events;' % ','.join(st['deferred']))
        if st.get('cond_defer'):
            # backmp11 conditional deferral: [(event, atom)]
            self.w('#if CFG >= 5')
            for ev, atom in st['cond_defer']:
                self.w('  template<class Fsm> bool is_event_deferred(const %s& e, Fsm& f) const { return rt::cond(%d, e, f); }' % (ev, atom))
            # a state that defines is_event_deferred is asked for every type of its list
            for ev in st.get('deferred') or []:
                if ev not in [x[0] for x in st['cond_defer']]:
                    self.w('  template<class Fsm> bool is_event_deferred(const %s&, Fsm&) const { return true; }' % ev)
            self.w('#endif')
        if self.feat.get('serialize'):
            self.w('  int cnt = 0;')
            if st.get('serialize'):
                self.w('  typedef int do_serialize; template<class Ar> void serialize(Ar& ar, const unsigned int){ ar & cnt; }')
            self.w('  template<class Ev,class Fsm> void on_entry(Ev const& e, Fsm& f){ ++cnt; rt::entry(%d,"%s",this,e,f); }' % (idx, name))
        else:
            self.w('  template<class Ev,class Fsm> void on_entry(Ev const& e, Fsm& f){ rt::entry(%d,"%s",this,e,f); }' % (idx, name))
        self.w('  template<class Ev,class Fsm> void on_exit(Ev const& e, Fsm& f){ rt::exit_(%d,"%s",this,e,f); }' % (idx, name))
        if st.get('internal'):
            self.w('  struct internal_transition_table : boost::mpl::vector<')
            self.w('    ' + ',\n    '.join(self.irow_cpp(r) for r in st['internal']))
            self.w('  > {};')
        self.w('};')

    def emit_forward(self, m, parent):
        """back11: contained machines name their enclosing machine as UpperFsm (get_upper()); needs the types up front"""
        name = m['name']
        self.w('struct %s_;' % name)
        if parent is None:
            self.w('typedef RT_BACK(%s_, %s) %s;' % (name, self.hist_back(m), name))
        else:
            self.w('typedef RT_BACK_UP(%s_, %s, %s) %s;' % (name, self.hist_back(m), parent, name))
        for sname in S.state_order(m):
            st = m['states'][sname]
            if st['kind'] == 'sub':
                self.emit_forward(st['machine'], name)

    def emit_machine(self, m, is_root, parent=None):
        name = m['name']
        if is_root:
            self.w('#if CFG == 4')
            self.emit_forward(m, None)
            self.w('#endif')
        for sname in S.state_order(m):
            st = m['states'][sname]
            if st['kind'] == 'sub':
                self.emit_machine(st['machine'], False, name)
            else:
                self.emit_state(sname, st)
        idx = self.sidx[name]
        st_self = m.get('as_state', {})
        if self.feat.get('visitable'):
            self.w('struct %s_ : boost::msm::front::state_machine_def<%s_, rt::VBase> {' % (name, name))
            self.w('  const char* rt_name() const override { return "%s"; }' % name)
        else:
            self.w('struct %s_ : boost::msm::front::state_machine_def<%s_> {' % (name, name))
            self.w('  const char* rt_name() const { return "%s"; }' % name)
        if st_self.get('flags'):
            self.w('  typedef boost::mpl::vector<%s> flag_list;' % ','.join(st_self['flags']))
        if st_self.get('deferred'):
            self.w('  typedef boost::mpl::vector<%s> deferred_events;' % ','.join(st_self['deferred']))
        self.w('  template<class Ev,class Fsm> void on_entry(Ev const& e, Fsm& f){ %srt::entry(%d,"%s",this,e,f); }' % ('++data; ' if self.feat.get('serialize') else '', idx, name))
        self.w('  template<class Ev,class Fsm> void on_exit(Ev const& e, Fsm& f){ rt::exit_(%d,"%s",this,e,f); }' % (idx, name))
        self.w('  typedef boost::mpl::vector<%s> initial_state;' % ','.join(reg[0] for reg in m['regions']))
        rows = [self.row_cpp(m, r) for r in m['table']]
        self.w('  struct transition_table : boost::mpl::vector<')
        self.w('    ' + ',\n    '.join(rows))
        self.w('  > {};')
        if m.get('internal'):
            self.w('  struct internal_transition_table : boost::mpl::vector<')
            self.w('    ' + ',\n    '.join(self.irow_cpp(r) for r in m['internal']))
            self.w('  > {};')
        self.w('  template<class Fsm,class Ev> void no_transition(Ev const& e, Fsm& f, int s){ rt::no_transition("%s", e, f, s); }' % name)
        self.w('  template<class Fsm,class Ev> void exception_caught(Ev const& e, Fsm& f, std::exception& x){ rt::exception_caught("%s", e, f, x); }' % name)
        if m.get('activate_deferred'):
            self.w('  typedef int activate_deferred_events;')
        # explicit_creation: explicit-entry states that do not occur in the table
        used = set()
        for r in m['table']:
            if isinstance(r['src'], str):
                used.add(r['src'])
            if isinstance(r.get('tgt'), str):
                used.add(r['tgt'])
        for reg in m['regions']:
            used.add(reg[0])
        expl = [s for s in S.state_order(m) if s not in used]
        if expl:
            self.w('  typedef boost::mpl::vector<%s> explicit_creation;' % ','.join(expl))
        hf = self.hist_front(m)
        if hf:
            self.w('#if CFG >= 5')
            self.w('  using history = %s;' % hf)
            self.w('#endif')
        pol = POLICY[m.get('policy', 'default')]
        if pol:
            self.w('  typedef %s active_state_switch_policy;' % pol)
        if m.get('no_exception'):
            self.w('  typedef int no_exception_thrown;')
        if self.feat.get('serialize'):
            self.w('  int data = 0;')
            if m.get('serialize'):
                self.w('  typedef int do_serialize; template<class Ar> void serialize(Ar& ar, const unsigned int){ ar & data; }')
        self.w('};')
        if is_root:
            self.w('typedef RT_BACK(%s_, %s) %s;' % (name, self.hist_back(m), name))
        else:
            self.w('typedef RT_BACK_UP(%s_, %s, %s) %s;' % (name, self.hist_back(m), parent, name))
        if not is_root:
            self.w('#if CFG == 2')
            self.w('} BOOST_MSM_BACK_GENERATE_PROCESS_EVENT(gen::%s) namespace gen {' % name)
            self.w('#endif')
        self.w()

    # ------------------------------------------------------------------
    def emit(self):
        sp = self.spec
        w = self.w
        w('// generated from spec %s (profile %s)' % (sp.get('id'), sp.get('profile')))
        if self.feat.get('scripts'):
            w('#define VERIF_SCRIPTS 1')
        if self.feat.get('serialize'):
            w('#define VERIF_SERIALIZE 1')
        if self.feat.get('visitable'):
            w('#define VERIF_VISITABLE 1')
        w('#include "rt.hpp"')
        w('#define RT_NOHIST ::rt::hist_none')
        w('#define RT_ALWAYSHIST ::rt::hist_always')
        w('#define RT_SHALLOWHIST(...) ::rt::hist_shallow<__VA_ARGS__>')
        w('namespace rt {')
        w('#if CFG <= 4')
        w('typedef boost::msm::back::NoHistory hist_none; typedef boost::msm::back::AlwaysHistory hist_always;')
        w('template<class... E> using hist_shallow = boost::msm::back::ShallowHistory<boost::mpl::vector<E...> >;')
        w('#else')
        w('struct hist_none {}; struct hist_always {}; template<class... E> struct hist_shallow {};')
        w('#endif')
        w('}')
        w('#if CFG >= 5')
        w('#define KLEENE_T std::any')
        w('#else')
        w('#define KLEENE_T boost::any')
        w('#endif')
        w('namespace gen {')
        w('using namespace boost::msm::front;')
        # events
        convs = {}   # exit point event -> set of incoming events
        for m, _ in S.machines(sp):
            for sname, st in m['states'].items():
                if st['kind'] == 'exit_pt':
                    for r in m['table']:
                        if r.get('tgt') == sname and r['ev'] is not None:
                            convs.setdefault(st['event'], set()).add(r['ev'])
        for e in sp['events']:
            n = e['name']
            if e.get('kleene'):
                continue
            b = e.get('base')
            body = e.get('body', 0)
            bm = (' unsigned char body_%s[%d]; void fill_%s(){ for(int i=0;i<%d;i++) body_%s[i]=(unsigned char)(p*13+i*3+%d); } bool ok_%s() const { for(int i=0;i<%d;i++) if(body_%s[i]!=(unsigned char)(p*13+i*3+%d)) return false; return true; }'
                  % (n, body, n, body, n, len(n), n, body, n, len(n))) if body else ''
            fill = (' fill_%s();' % n) if body else ''
            # an exit point's event that is built from another event type gets a different layout (a tag in front of the
            # payload): if the library hands the unconverted object over instead of converting it, the tag is wrong
            tagged = bool([x for x in convs.get(n, ()) if x != n]) and not b
            if b:
                # 'pad': the base class does not sit at offset 0 of the derived event (a base-class row must still get the base)
                w('struct %s : %s%s {%s %s(int p_=0):%s(p_){%s}' % (n, 'rt::EvPad, ' if e.get('pad') else '', b, bm, n, b, fill))
            elif tagged:
                w('struct %s { int tagx; int p;%s %s(int p_=0):tagx(0x5a5a5a),p(p_){%s}' % (n, bm, n, fill))
            else:
                w('struct %s { int p;%s %s(int p_=0):p(p_){%s}' % (n, bm, n, fill))
            for src in sorted(convs.get(n, ())):
                if src != n:
                    w('  %s(struct %s const& e);' % (n, src))
            w('};')
        for e in sp['events']:
            n = e['name']
            for src in sorted(convs.get(n, ())):
                if src != n:
                    w('inline %s::%s(%s const& e):tagx(0x5a5a5a),p(e.p){}' % (n, n, src) if not e.get('base') else
                      'inline %s::%s(%s const& e):%s(e.p){}' % (n, n, src, e['base']))
        for e in sp['events']:
            if not e.get('kleene'):
                chk = (' + (e.ok_%s() ? "" : "!CORRUPT")' % e['name']) if e.get('body') else ''
                if [x for x in convs.get(e['name'], ()) if x != e['name']] and not e.get('base'):
                    chk += ' + (e.tagx == 0x5a5a5a ? "" : "!NOTCONVERTED")'
                w('inline std::string rt_describe(const %s& e){ return "%s#" + std::to_string(e.p)%s; }' % (e['name'], e['name'], chk))
        for f in sp.get('flags', []):
            w('struct %s {};' % f)
        w('template<int N> struct G { template<class Ev,class Fsm,class S,class T> bool operator()(Ev const& e,Fsm& f,S&,T&){ return rt::guard(N,e,f); } };')
        w('template<int N> struct A { template<class Ev,class Fsm,class S,class T> void operator()(Ev const& e,Fsm& f,S&,T&){ rt::action(N,e,f); } };')
        w()
        self.emit_machine(sp['root'], True)
        # with_event
        concrete = [e for e in sp['events'] if not e.get('kleene')]
        w('template<class F> void with_event(int idx, int p, F&& f){')
        w('  switch(idx){')
        for i, e in enumerate(sp['events']):
            if e.get('kleene'):
                continue
            w('  case %d: { %s e(p); f(e); break; }' % (i, e['name']))
        w('  default: break; }')
        w('}')
        # machine accessors
        w('#if CFG >= 5')
        w('#define RT_GET(m, T) (m).template get_state<T>()')
        w('#else')
        w('#define RT_GET(m, T) (m).template get_state<T&>()')
        w('#endif')
        paths = list(S.machines(sp))
        for m, path in paths:
            # accessor for machine object by path
            expr = 'r'
            for nm in path[1:]:
                expr = 'RT_GET(%s, %s)' % (expr, nm)
            w('inline %s& mach_%s(Root& r){ return %s; }' % (m['name'], m['name'], expr))
        w('inline void dump_ids(Root& r, std::string& o){')
        for m, path in paths:
            w('  { auto& m = mach_%s(r); o += "%s="; for(int i=0;i<%d;i++){ if(i) o += ","; o += std::to_string(rt::api_id(m,i)); } o += ";"; }'
              % (m['name'], m['name'], len(m['regions'])))
        w('}')
        # idmap
        w('inline std::string idmap(){ std::string o;')
        for m, path in paths:
            for sname in S.state_order(m):
                w('#if CFG >= 5')
                tname = sname
                if m['states'][sname]['kind'] == 'exit_pt':
                    tname = '%s::exit_pt<%s>' % (m['name'], sname)
                w('  o += "%s:%s=" + std::to_string((int)%s::get_state_id<%s>()) + ";";' % (m['name'], sname, m['name'], tname))
                w('#else')
                w('  o += "%s:%s=" + std::to_string((int)rt::backns::get_state_id<%s::stt,%s>::value) + ";";' % (m['name'], sname, m['name'], tname))
                w('#endif')
        w('  return o; }')
        # freeze table
        w('inline void init_freeze(){')
        cg = S.completion_guard_atoms(sp)
        if cg:
            w('  auto& ft = rt::freeze().mask_by_state; ft.assign(%d, 0ULL);' % (len(self.sidx) + 1))
            for atom, src in sorted(cg.items()):
                w('  ft[%d] |= (1ULL<<%d); rt::frozen_atoms() |= (1ULL<<%d);' % (self.sidx[src], atom, atom))
        w('}')
        # queues (circular buffers need a capacity)
        w('inline void setup_queues(Root& r){ (void)r;')
        w('#if CFG == 3')
        for m, path in paths:
            w('  mach_%s(r).get_message_queue().set_capacity(256);' % m['name'])
            if self.has_def(m):
                w('  mach_%s(r).get_deferred_queue().set_capacity(256);' % m['name'])
        w('#endif')
        w('}')
        root = sp['root']
        has_def = self.has_def(root)
        w('inline size_t pending(Root& r){')
        w('#if CFG >= 5')
        w('  return r.pending();')
        w('#else')
        w('  return r.get_message_queue_size()%s;' % (' + r.get_deferred_queue().size()' if has_def else ''))
        w('#endif')
        w('}')
        self.emit_probes(paths)
        w('} // namespace gen')
        w('namespace rt {')
        w('std::string describe_std_any(const std::any& a){')
        for e in sp['events']:
            if not e.get('kleene'):
                w('  if (auto p = std::any_cast<gen::%s>(&a)) return gen::rt_describe(*p);' % e['name'])
        w('  return std::string("?") ; }')
        w('std::string describe_boost_any(const boost::any& a){')
        for e in sp['events']:
            if not e.get('kleene'):
                w('  if (auto p = boost::any_cast<gen::%s>(&a)) return gen::rt_describe(*p);' % e['name'])
        w('  return std::string("?") ; }')
        w('}')
        w('#include "rt_main.hpp"')
        w('int main(int argc, char** argv){ return rt::main_loop(argc, argv); }')
        return '\n'.join(self.out) + '\n'

    def has_def(self, m):
        if m.get('activate_deferred'):
            return True
        for st in m['states'].values():
            if st.get('deferred'):
                return True
            if st['kind'] == 'sub' and st['machine'].get('as_state', {}).get('deferred'):
                return True
        return False

    def emit_probes(self, paths):
        w = self.w
        sp = self.spec
        flags = sp.get('flags', [])
        # probe_inside: what behaviours can observe: ids of all machines + flags (OR) at root
        w('inline void probe_inside(Root& r, std::string& o){ dump_ids(r, o);')
        for f in flags:
            w('  o += "%s=" + std::to_string((int)r.is_flag_active<%s>()) + ";";' % (f, f))
        w('}')
        w('inline void probe_all(Root& r, std::string& o){ dump_ids(r, o);')
        if self.feat.get('serialize'):
            for m, path in paths:
                w('  o += "data:%s=" + std::to_string(mach_%s(r).data) + ";";' % (m['name'], m['name']))
                for sname in S.state_order(m):
                    if m['states'][sname]['kind'] != 'sub':
                        tname = sname
                        if m['states'][sname]['kind'] == 'exit_pt':
                            tname = '%s::exit_pt<%s>' % (m['name'], sname)
                        w('  o += "cnt:%s=" + std::to_string(RT_GET(mach_%s(r), %s).cnt) + ";";' % (sname, m['name'], tname))
        if self.feat.get('visitable'):
            w('#if CFG >= 5')
            for mode in ('active_recursive', 'active_non_recursive', 'all_recursive', 'all_non_recursive'):
                w('  { o += "v_%s="; r.visit<boost::msm::backmp11::visit_mode::%s>([&](auto& s){ o += s.rt_name(); o += ","; }); o += ";"; }' % (mode, mode))
            w('  o += "act=";')
            for m, path in paths:
                for sname in S.state_order(m):
                    tname = sname
                    if m['states'][sname]['kind'] == 'exit_pt':
                        tname = '%s::exit_pt<%s>' % (m['name'], sname)
                    w('  if (r.is_state_active<%s>()) o += "%s,";' % (tname, sname))
            w('  o += ";";')
            w('#else')
            w('  { rt::Vis v; r.visit_current_states(boost::ref(v)); o += "v_active_recursive=" + v.names + ";"; }')
            for m, path in paths:
                n = len(S.state_order(m))
                w('  { auto& mm = mach_%s(r); o += "byid:%s="; for (int i = 0; i < %d; ++i) { const rt::VBase* p = mm.get_state_by_id(i); o += p ? p->rt_name() : "null"; o += ","; } o += ";"; }'
                  % (m['name'], m['name'], n))
            w('#endif')
        for m, path in paths:
            for f in flags:
                w('  o += "fl:%s:%s=" + std::to_string((int)mach_%s(r).is_flag_active<%s>());' % (m['name'], f, m['name'], f))
                w('#if CFG >= 5')
                w('  o += std::to_string((int)mach_%s(r).is_flag_active<%s, boost::msm::backmp11::flag_and>()) + ";";' % (m['name'], f))
                w('#else')
                w('  o += std::to_string((int)mach_%s(r).is_flag_active<%s, %s::Flag_AND>()) + ";";' % (m['name'], f, m['name']))
                w('#endif')
        w('}')


def emit_cpp(spec):
    return Emitter(spec).emit()
