"""Content-addressed build cache. Key covers /repo/include/boost/msm, the harness, the generated TU and flags,
so any edit to boostorg/msm forces a rebuild and an unchanged tree is never recompiled."""
import os, hashlib, subprocess, fcntl, json, shutil, time
from concurrent.futures import ThreadPoolExecutor

VERIF = os.path.dirname(os.path.dirname(os.path.abspath(__file__)))
REPO = os.environ.get('VERIF_REPO', '/repo')
BUILD = os.environ.get('VERIF_BUILD_DIR') or os.path.join(VERIF, 'build')      # (the override lets snapshot runs share the cache)
HARNESS = os.path.join(VERIF, 'harness')

CONFIGS = {1: 'back', 2: 'back_ct', 3: 'back_circ', 4: 'back11', 5: 'mp11', 6: 'mp11_fpa', 7: 'mp11_ct'}
CFG_BY_NAME = {v: k for k, v in CONFIGS.items()}

_tree_hash = None


def tree_hash():
    global _tree_hash
    if _tree_hash is None:
        h = hashlib.sha256()
        for base in (os.path.join(REPO, 'include', 'boost', 'msm'), HARNESS):
            for root, dirs, files in sorted(os.walk(base)):
                dirs.sort()
                for f in sorted(files):
                    p = os.path.join(root, f)
                    h.update(os.path.relpath(p, base).encode())      # content and relative name: the same tree elsewhere shares the cache
                    with open(p, 'rb') as fh:
                        h.update(fh.read())
        _tree_hash = h.hexdigest()
    return _tree_hash


def compile_cmd(src, out, cfg, flavor='plain', extra=()):
    inc = ['-I' + os.path.join(REPO, 'include'), '-I' + HARNESS]
    if flavor == 'plain':
        cmd = ['g++', '-std=gnu++17', '-O0', '-g0', '-w', '-fno-var-tracking']
    elif flavor == 'asan':
        cmd = ['clang++', '-std=gnu++17', '-O1', '-g', '-w', '-fsanitize=address,undefined', '-fno-sanitize-recover=undefined']
    elif flavor == 'zero':
        cmd = ['g++', '-std=gnu++17', '-O1', '-g0', '-w', '-ftrivial-auto-var-init=zero']
    elif flavor == 'pattern':
        cmd = ['g++', '-std=gnu++17', '-O1', '-g0', '-w', '-ftrivial-auto-var-init=pattern']
    elif flavor == 'vg':
        cmd = ['g++', '-std=gnu++17', '-O0', '-g', '-w']
    else:
        raise ValueError(flavor)
    return cmd + ['-DCFG=%d' % cfg] + list(extra) + inc + [src, '-o', out]


def build_one(cpp_text, cfg, flavor='plain', extra=(), libs=()):
    """Returns (binary path or None, log)."""
    os.makedirs(BUILD, exist_ok=True)
    key = hashlib.sha256((tree_hash() + cpp_text + str(cfg) + flavor + repr(extra) + repr(libs)).encode()).hexdigest()[:24]
    d = os.path.join(BUILD, key)
    binp = os.path.join(d, 'sut')
    failp = os.path.join(d, 'FAILED')
    os.makedirs(d, exist_ok=True)
    with open(os.path.join(d, '.lock'), 'w') as lk:
        fcntl.flock(lk, fcntl.LOCK_EX)
        if os.path.exists(binp) and not os.environ.get('VERIF_NO_CACHE'):
            os.utime(d)
            return binp, 'cached'
        if os.path.exists(failp) and not os.environ.get('VERIF_NO_CACHE'):
            return None, open(failp).read()
        src = os.path.join(d, 'm.cpp')
        with open(src, 'w') as f:
            f.write(cpp_text)
        cmd = compile_cmd(src, binp + '.tmp', cfg, flavor, extra) + list(libs)
        t0 = time.time()
        p = subprocess.run(cmd, stdout=subprocess.PIPE, stderr=subprocess.STDOUT, text=True)
        if p.returncode != 0:
            with open(failp, 'w') as f:
                f.write(' '.join(cmd) + '\n' + p.stdout[-20000:])
            return None, p.stdout[-20000:]
        os.rename(binp + '.tmp', binp)
        return binp, 'built in %.1fs' % (time.time() - t0)


def build_many(jobs, workers=None):
    """jobs: list of (cpp_text, cfg, flavor, extra, libs). Returns list of (bin, log)."""
    workers = workers or int(os.environ.get('VERIF_JOBS', '16'))
    with ThreadPoolExecutor(max_workers=workers) as ex:
        return list(ex.map(lambda j: build_one(*j), jobs))


def prune(max_bytes=12 << 30):
    if not os.path.isdir(BUILD):
        return
    ents = []
    for d in os.listdir(BUILD):
        p = os.path.join(BUILD, d)
        if os.path.isdir(p):
            sz = sum(os.path.getsize(os.path.join(p, f)) for f in os.listdir(p) if os.path.isfile(os.path.join(p, f)))
            ents.append((os.path.getmtime(p), sz, p))
    ents.sort(reverse=True)
    tot = 0
    for mt, sz, p in ents:
        tot += sz
        if tot > max_bytes:
            shutil.rmtree(p, ignore_errors=True)
