"""Per-property oracles. Each takes a Ctx (spec, static tables, concrete case, SUT tokens per op) and either raises
engine.Violation or returns dict(nontrivial=[keys], classes={name: count})."""
import re
from collections import Counter
from . import cases, spec as S
from .engine import Violation, model_ops


def dialect_of(cfg):
    # front-end variants (C14) are keyed as variant*10 + configuration
    return 'back' if (cfg % 10) <= 4 else 'mp11'


class Ctx:
    def __init__(self, spec, static, cfg, concrete, per_op, job=None):
        self.spec = spec
        self.static = static
        self.cfg = cfg
        self.case = concrete
        self.sut = per_op
        self.job = job or {}
        self._model = None

    @property
    def model(self):
        if self._model is None:
            self._model, self.model_obj = model_ops(self.spec, self.case[:len(self.sut)], dialect_of(self.cfg))
        return self._model


# ---------------------------------------------------------------------------------------------- token helpers
_tok_re = re.compile(r'^(g(\d+)=([01])|a(\d+)|en:(\w+)|ex:(\w+)|nt:(\w+):([#\w]+)|xc:(\w+))/([^@]*)(@-?\d+)?$')


def parse(t):
    """-> (kind, id, extra, evdesc) kind in g,a,en,ex,nt,xc or None"""
    m = _tok_re.match(t)
    if not m:
        return None
    if m.group(2) is not None:
        return ('g', int(m.group(2)), int(m.group(3)), m.group(10))
    if m.group(4) is not None:
        return ('a', int(m.group(4)), None, m.group(10))
    if m.group(5) is not None:
        return ('en', m.group(5), None, m.group(10))
    if m.group(6) is not None:
        return ('ex', m.group(6), None, m.group(10))
    if m.group(7) is not None:
        return ('nt', m.group(7), m.group(8), m.group(10))
    return ('xc', m.group(9), None, m.group(10))


def ids_of(toks):
    for t in reversed(toks):
        if t.startswith('ids{'):
            return t
    return None


def code_of(toks):
    for t in toks:
        if t.startswith(']='):
            return t[2:]
    return None


def fail(prop, msg, ctx, opi, **detail):
    d = dict(op_index=opi, op=cases.op_str(ctx.case[opi]) if opi is not None and opi < len(ctx.case) else None,
             sut=' '.join(ctx.sut[opi]) if opi is not None and opi < len(ctx.sut) else None)
    if opi is not None and ctx._model is not None and opi < len(ctx.model):
        d['model'] = ' '.join(ctx.model[opi])
    d.update(detail)
    raise Violation('%s: %s' % (prop, msg), d, detail.get('sig'))


def ids_before(ctx, i):
    for j in range(i - 1, -1, -1):
        t = ids_of(ctx.sut[j])
        if t:
            return t
    return 'ids{}'


# ---------------------------------------------------------------------------------------------- C01
def group_ga(ctx, toks):
    """guard and action tokens grouped by the (machine, region) that owns their row"""
    st = ctx.static
    out = {}
    for t in toks:
        p = parse(t)
        if not p:
            continue
        if p[0] == 'g':
            own = st.atom_owner.get(p[1])
        elif p[0] == 'a':
            own = st.action_owner.get(p[1])
        else:
            continue
        if own is None:
            own = ('?', None, None)
        out.setdefault((own[0], own[1]), []).append(t)
    return out


def C01(ctx):
    """Enabled-transition selection: per (machine, region) the ordered guard evaluations and the actions that ran
    must equal the reference model's prediction."""
    st = ctx.static
    nontrivial = []
    classes = Counter()
    for i, c in enumerate(ctx.case):
        if i >= len(ctx.sut):
            break
        if c['op'] != 'P':
            if ids_of(ctx.sut[i]) != ids_of(ctx.model[i]):
                classes['diverged_elsewhere'] += 1
                break
            continue
        gs = group_ga(ctx, ctx.sut[i])
        gm = group_ga(ctx, ctx.model[i])
        if gs != gm:
            keys = sorted(set(gs) | set(gm), key=str)
            bad = [k for k in keys if gs.get(k) != gm.get(k)]
            fail('C01', 'guard/action sequence of %s differs from the model' % (bad[0],), ctx, i,
                 sut_group=gs.get(bad[0]), model_group=gm.get(bad[0]), ids_before=ids_before(ctx, i))
        # a guard atom may appear at most once per candidate per step
        seen = Counter(t.split('=')[0] for t in ctx.sut[i] if parse(t) and parse(t)[0] == 'g')
        # non-triviality
        rows_by_group = {}
        levels = set()
        for (mach, reg), toks in gs.items():
            keys = set()
            for t in toks:
                p = parse(t)
                own = st.atom_owner.get(p[1]) if p[0] == 'g' else st.action_owner.get(p[1])
                if own:
                    keys.add(own[2])
            rows_by_group[(mach, reg)] = keys
            levels.add(st.level.get(mach))
        if any(len(k) >= 2 for k in rows_by_group.values()) or len(levels) >= 2:
            gtoks = tuple(t.split('/')[0] for t in ctx.sut[i] if parse(t) and parse(t)[0] in ('g', 'a'))
            nontrivial.append((ctx.spec['id'], ids_before(ctx, i), c['ev'], gtoks))
            classes['multi_candidate' if any(len(k) >= 2 for k in rows_by_group.values()) else 'multi_level_only'] += 1
            if len(levels) >= 2:
                classes['multi_level'] += 1
        classes['steps'] += 1
        if ids_of(ctx.sut[i]) != ids_of(ctx.model[i]):
            classes['diverged_elsewhere'] += 1
            break
    else:
        classes['full_trace_agree'] += int(all(a == b for a, b in zip(ctx.sut, ctx.model)))
    return dict(nontrivial=nontrivial, classes=classes)


# ---------------------------------------------------------------------------------------------- shared projections
def tok_owner(ctx, p):
    """(machine, region-in-that-machine or None) owning a parsed token"""
    st = ctx.static
    if p[0] == 'g':
        o = st.atom_owner.get(p[1])
        return (o[0], o[1]) if o else None
    if p[0] == 'a':
        o = st.action_owner.get(p[1])
        return (o[0], o[1]) if o else None
    if p[0] in ('en', 'ex'):
        if p[1] in st.state_owner:
            return st.state_owner[p[1]]
        return (p[1], None)     # the root machine's own entry/exit
    return None


def root_region_of(ctx, owner):
    st = ctx.static
    mach, reg = owner
    if mach == ctx.spec['root']['name']:
        return reg
    return st.root_region.get(mach)


def region_chain(ctx, owner):
    """[(machine, region)] from the owning machine up to the root"""
    st = ctx.static
    out = []
    mach, reg = owner
    while mach is not None:
        out.append((mach, reg))
        par = st.parent.get(mach)
        if par is None:
            break
        reg = st.state_owner[mach][1]
        mach = par
    return out


def sync_or_stop(ctx, i, classes):
    if ids_of(ctx.sut[i]) != ids_of(ctx.model[i]):
        classes['diverged_elsewhere'] += 1
        return False
    return True


# ---------------------------------------------------------------------------------------------- C02
def C02(ctx):
    """Transition execution order: per root region the exit/action/entry sequence equals the model's (R-exec),
    and the active configuration after the operation equals the model's."""
    nontrivial = []
    classes = Counter()
    for i, c in enumerate(ctx.case):
        if i >= len(ctx.sut):
            break
        def proj(toks):
            out = {}
            for t in toks:
                p = parse(t)
                if not p or p[0] not in ('en', 'ex', 'a'):
                    continue
                o = tok_owner(ctx, p)
                rr = root_region_of(ctx, o) if o else '?'
                out.setdefault(rr, []).append(t)
            return out
        ps, pm = proj(ctx.sut[i]), proj(ctx.model[i])
        if ps != pm:
            bad = [k for k in sorted(set(ps) | set(pm), key=str) if ps.get(k) != pm.get(k)][0]
            fail('C02', 'exit/action/entry sequence in root region %s differs from the model' % (bad,), ctx, i,
                 sut_seq=ps.get(bad), model_seq=pm.get(bad), ids_before=ids_before(ctx, i))
        if ids_of(ctx.sut[i]) != ids_of(ctx.model[i]):
            # same behaviours ran but the configuration afterwards differs: that is this property ("afterwards T is active")
            gs, gm = group_ga(ctx, ctx.sut[i]), group_ga(ctx, ctx.model[i])
            if gs == gm:
                fail('C02', 'active configuration after the operation differs from the model', ctx, i,
                     sut_ids=ids_of(ctx.sut[i]), model_ids=ids_of(ctx.model[i]))
            classes['diverged_elsewhere'] += 1
            break
        if c['op'] == 'P':
            classes['steps'] += 1
            for rr, seq in ps.items():
                exs = [parse(t)[1] for t in seq if t.startswith('ex:')]
                ens = [parse(t)[1] for t in seq if t.startswith('en:')]
                acts = [t for t in seq if t[0] == 'a']
                cls = None
                if len(exs) >= 3 or len(ens) >= 3:
                    cls = 'cascade'
                elif exs and ens and exs[-1] == ens[0]:
                    cls = 'self_transition'
                elif acts and not exs and not ens:
                    cls = 'internal'
                if cls:
                    classes[cls] += 1
                    nontrivial.append((ctx.spec['id'], ids_before(ctx, i), c['ev'], tuple(t.split('/')[0] for t in seq)))
    return dict(nontrivial=nontrivial, classes=classes)


# ---------------------------------------------------------------------------------------------- C06
def C06(ctx):
    """Orthogonal regions: every region once and in declaration order; handled bit <=> something taken;
    zero <=> nothing matched; no_transition exactly when zero, once per root region, on the root machine only.
    Model-free invariants, plus the code class compared with the model (R-result)."""
    st = ctx.static
    root = ctx.spec['root']
    nontrivial = []
    classes = Counter()
    has_exit_pt = any(sd['kind'] == 'exit_pt' for m in st.machine.values() for sd in m['states'].values())
    for i, c in enumerate(ctx.case):
        if i >= len(ctx.sut):
            break
        if c['op'] != 'P':
            if not sync_or_stop(ctx, i, classes):
                break
            continue
        toks = ctx.sut[i]
        parsed = [parse(t) for t in toks]
        # 1. region order, every region offered once: per machine the region indices of attributable tokens never decrease
        last = {}
        for p in parsed:
            # dispatch phase only: guards and actions belong to the row of one region; exit/entry cascades of a
            # submachine legitimately walk its regions again and are covered by the run comparison below
            if not p or p[0] not in ('g', 'a'):
                continue
            # an exit point hands its (converted) event to the outermost machine from inside the dispatch of a region: all
            # regions are offered that second event, so the index restarts; there the order is decided by the run comparison
            if has_exit_pt:
                continue
            o = tok_owner(ctx, p)
            if not o:
                continue
            for (mach, reg) in region_chain(ctx, o):
                if reg is None:
                    continue
                if mach in last and reg < last[mach]:
                    fail('C06', 'machine %s: behaviour of region %d observed after region %d (regions not processed once each in order)'
                         % (mach, reg, last[mach]), ctx, i)
                last[mach] = reg
        def runs(tk):
            out = []
            for t in tk:
                q = parse(t)
                if not q or q[0] not in ('g', 'a', 'en', 'ex'):
                    continue
                o = tok_owner(ctx, q)
                rr = root_region_of(ctx, o) if o else None
                if not out or out[-1] != rr:
                    out.append(rr)
            return out
        if runs(toks) != runs(ctx.model[i]):
            fail('C06', 'order in which the root regions reacted %s differs from the model %s' % (runs(toks), runs(ctx.model[i])), ctx, i)
        code = code_of(toks)
        visible = any(p and p[0] in ('a', 'en', 'ex') for p in parsed)
        guards = any(p and p[0] == 'g' for p in parsed)
        nts = [p for p in parsed if p and p[0] == 'nt']
        before = st.parse_ids(ids_before(ctx, i))
        # 2. handled <=> something taken (the generator gives every guard-less internal row an action, so "taken" is visible)
        if (code == 'H') != visible:
            fail('C06', 'handled bit is %s but %s transition behaviour ran' % ('set' if code == 'H' else 'clear', 'a' if visible else 'no'), ctx, i)
        # 3. zero <=> nothing matched anywhere
        if (code == 'Z') != (not visible and not guards):
            fail('C06', 'return code is %s although %s' % ('zero' if code == 'Z' else 'non-zero',
                                                          'candidates were consulted' if (visible or guards) else 'nothing matched'), ctx, i)
        # 4. no_transition exactly when zero: once per root region with that region's active state, never on a submachine
        exp = sorted(before.get(root['name'], [])) if code == 'Z' else []
        got = sorted(p[2] for p in nts)
        if any(p[1] != root['name'] for p in nts):
            fail('C06', 'no_transition invoked on a submachine', ctx, i)
        if got != exp:
            fail('C06', 'no_transition calls %s, expected %s' % (got, exp), ctx, i)
        mcode = code_of(ctx.model[i])
        if mcode != code:
            fail('C06', 'result class %s differs from the model (%s)' % (code, mcode), ctx, i)
        # non-triviality: outcomes differ between root regions, or nothing matched
        outcome = {}
        for p in parsed:
            if not p or p[0] not in ('g', 'a', 'en', 'ex'):
                continue
            o = tok_owner(ctx, p)
            rr = root_region_of(ctx, o) if o else None
            if rr is None:
                continue
            cur = outcome.get(rr, 'none')
            if p[0] == 'g' and cur == 'none':
                cur = 'rejected'
            if p[0] in ('a', 'en', 'ex'):
                cur = 'taken'
            outcome[rr] = cur
        outs = [outcome.get(r, 'none') for r in range(len(root['regions']))]
        if (len(root['regions']) >= 2 and len(set(outs)) >= 2) or code == 'Z':
            nontrivial.append((ctx.spec['id'], ids_before(ctx, i), c['ev'], tuple(outs), code))
            classes['mixed_outcomes' if len(set(outs)) >= 2 else 'nothing_matched'] += 1
        classes['steps'] += 1
        if not sync_or_stop(ctx, i, classes):
            break
    return dict(nontrivial=nontrivial, classes=classes)


# ---------------------------------------------------------------------------------------------- C07
def C07(ctx):
    """Hierarchy: level projection of guards/actions/cascades equals the model; exits innermost first, entries outermost
    first; a submachine that is not active contributes no behaviour."""
    st = ctx.static
    nontrivial = []
    classes = Counter()
    for i, c in enumerate(ctx.case):
        if i >= len(ctx.sut):
            break
        def proj(toks):
            out = {}
            for t in toks:
                p = parse(t)
                if not p or p[0] not in ('g', 'a', 'en', 'ex'):
                    continue
                o = tok_owner(ctx, p)
                if not o:
                    continue
                rr = root_region_of(ctx, o)
                lvl = st.level[o[0]]
                item = (p[0], lvl)
                seq = out.setdefault(rr, [])
                if not seq or seq[-1] != item or p[0] in ('en', 'ex'):
                    seq.append(item)
            return out
        ps, pm = proj(ctx.sut[i]), proj(ctx.model[i])
        if ps != pm:
            bad = [k for k in sorted(set(ps) | set(pm), key=str) if ps.get(k) != pm.get(k)][0]
            fail('C07', 'level sequence in root region %s differs from the model' % (bad,), ctx, i,
                 sut_levels=ps.get(bad), model_levels=pm.get(bad), ids_before=ids_before(ctx, i))
        # inactive submachines are silent
        before = st.parse_ids(ids_before(ctx, i)) if i > 0 else {}
        after = st.parse_ids(ids_of(ctx.sut[i]) or 'ids{}')
        act = set(st.active_machines(before)) | set(st.active_machines(after)) if c['op'] != 'S' else set(st.active_machines(after))
        for t in ctx.sut[i]:
            p = parse(t)
            if p and p[0] == 'en' and p[1] in st.machine:
                act.add(p[1])       # entered within this operation (an operation may dispatch further, e.g. re-offered, occurrences)
            if p and p[0] in ('g', 'a', 'en', 'ex'):
                o = tok_owner(ctx, p)
                if o and o[0] not in act:
                    fail('C07', 'behaviour %s of submachine %s ran although it is not active' % (t, o[0]), ctx, i)
        if c['op'] == 'P':
            classes['steps'] += 1
            for rr, seq in ps.items():
                glv = [l for (k, l) in seq if k == 'g']
                alv = [l for (k, l) in seq if k in ('a', 'en', 'ex')]
                if len(set(glv)) >= 2 or (alv and glv and min(alv) > min(glv)) or (glv and alv and max(glv) > min(alv)):
                    nontrivial.append((ctx.spec['id'], ids_before(ctx, i), c['ev'], tuple(seq)))
                    classes['bubbled'] += 1
                    if len(set(glv)) >= 3:
                        classes['bubbled_3_levels'] += 1
        if not sync_or_stop(ctx, i, classes):
            break
    return dict(nontrivial=nontrivial, classes=classes)


# ---------------------------------------------------------------------------------------------- C08
def C08(ctx):
    """History policies: the entry behaviours invoked on (re-)entry of a submachine and its active states afterwards
    equal R-history (initial / last active / last active iff the entering event is listed), for the regions not named
    by an explicit target."""
    st = ctx.static
    nontrivial = []
    classes = Counter()
    hist_machines = {nm for nm, m in st.machine.items() if m.get('history', 'none') != 'none'}
    for i, c in enumerate(ctx.case):
        if i >= len(ctx.sut):
            break
        def proj(toks):
            out = {}
            for t in toks:
                p = parse(t)
                if p and p[0] == 'en':
                    o = tok_owner(ctx, p)
                    out.setdefault(root_region_of(ctx, o) if o else None, []).append(t)
            return out
        ps, pm = proj(ctx.sut[i]), proj(ctx.model[i])
        if ps != pm:
            bad = [k for k in sorted(set(ps) | set(pm), key=str) if ps.get(k) != pm.get(k)][0]
            fail('C08', 'entry behaviours in root region %s differ from the model' % (bad,), ctx, i,
                 sut_seq=ps.get(bad), model_seq=pm.get(bad), ids_before=ids_before(ctx, i))
        si, mi = ids_of(ctx.sut[i]), ids_of(ctx.model[i])
        if si != mi:
            # only the configuration of active machines is compared here
            a = st.parse_ids(si) if si else {}
            b = st.parse_ids(mi) if mi else {}
            act = st.active_machines(a)
            if any(a.get(m) != b.get(m) for m in act):
                entered = {parse(t)[1] for t in ctx.sut[i] if parse(t) and parse(t)[0] == 'en'}
                if entered & set(st.machine):
                    fail('C08', 'active states after (re-)entry differ from the model', ctx, i, sut_ids=si, model_ids=mi)
                classes['diverged_elsewhere'] += 1
                break
        before = st.parse_ids(ids_before(ctx, i)) if i > 0 else {}
        for t in ctx.sut[i]:
            p = parse(t)
            if p and p[0] == 'en' and p[1] in hist_machines:
                m = st.machine[p[1]]
                init = [reg[0] for reg in m['regions']]
                remembered = before.get(p[1], init)
                classes['reentry_with_history_machine'] += 1
                if remembered != init:
                    h = m['history']
                    evn = p[3].split('#')[0]
                    listed = h == 'always' or evn in h.get('shallow', [])
                    nontrivial.append((ctx.spec['id'], p[1], tuple(remembered), evn, tuple(x.split('/')[0] for x in ctx.sut[i] if x.startswith('en:'))))
                    classes['restore_listed' if listed else 'restore_not_listed'] += 1
                    tg = [r for r in st.machine[st.parent[p[1]]]['table'] if isinstance(r.get('tgt'), dict) and list(r['tgt'].values())[0][0] == p[1] and r['ev'] == evn]
                    if tg:
                        classes['explicit_entry_with_memory'] += 1
    return dict(nontrivial=nontrivial, classes=classes)


# ---------------------------------------------------------------------------------------------- C09
def pseudo_keys(ctx):
    """row keys of rows that use a pseudo construct, names of pseudo states, exit-point events per submachine"""
    st = ctx.static
    if hasattr(st, '_pseudo'):
        return st._pseudo
    rows = set()
    for (nm, ri, kind, r, key) in st.rows:
        if isinstance(r.get('tgt'), dict) or not isinstance(r['src'], str):
            rows.add(key)
        if isinstance(r.get('tgt'), str) and st.machine[nm]['states'][r['tgt']]['kind'] == 'exit_pt':
            rows.add(key)
        if isinstance(r['src'], str) and st.machine[nm]['states'][r['src']]['kind'] == 'entry_pt':
            rows.add(key)
    names = {s for s, (nm, ri) in st.state_owner.items() if st.machine[nm]['states'][s]['kind'] in ('entry_pt', 'exit_pt', 'explicit')}
    exit_events = {}
    for nm, m in st.machine.items():
        for s, sd in m['states'].items():
            if sd['kind'] == 'exit_pt':
                exit_events.setdefault(nm, set()).add(sd['event'])
    st._pseudo = (rows, names, exit_events)
    return st._pseudo


def C09(ctx):
    """Explicit entry, fork, entry point, exit point: steps that touch a pseudo construct must equal the model token
    for token (states entered, order, the event every behaviour receives, outer exit-point row only while the exit
    point is active)."""
    st = ctx.static
    rows, names, exit_events = pseudo_keys(ctx)
    nontrivial = []
    classes = Counter()
    for i, c in enumerate(ctx.case):
        if i >= len(ctx.sut):
            break
        touches = None
        for toks in (ctx.sut[i], ctx.model[i]):
            for t in toks:
                p = parse(t)
                if not p:
                    continue
                if p[0] in ('en', 'ex') and p[1] in names:
                    touches = touches or 'pseudo_state'
                elif p[0] == 'g' and st.atom_owner.get(p[1], (0, 0, None))[2] in rows:
                    touches = touches or 'pseudo_row'
                elif p[0] == 'a' and st.action_owner.get(p[1], (0, 0, None))[2] in rows:
                    touches = touches or 'pseudo_row'
        if c['op'] == 'P' and not touches and i > 0:
            evn = ctx.spec['events'][c['ev']]['name']
            before = st.parse_ids(ids_before(ctx, i))
            for nm in st.active_machines(before):
                if evn in exit_events.get(nm, ()) and not any(
                        st.machine[nm]['states'][s]['kind'] == 'exit_pt' for s in before.get(nm, [])):
                    touches = 'exit_event_from_outside'
        if touches:
            core_s = [t for t in ctx.sut[i] if not t.startswith('ids{')]
            core_m = [t for t in ctx.model[i] if not t.startswith('ids{')]
            if core_s != core_m:
                k = 0
                while k < min(len(core_s), len(core_m)) and core_s[k] == core_m[k]:
                    k += 1
                fail('C09', 'step through a pseudo state differs from the model at token %d (%s vs %s)' %
                     (k, core_s[k] if k < len(core_s) else '<end>', core_m[k] if k < len(core_m) else '<end>'), ctx, i,
                     ids_before=ids_before(ctx, i), touches=touches)
            if ids_of(ctx.sut[i]) != ids_of(ctx.model[i]):
                a, b = st.parse_ids(ids_of(ctx.sut[i])), st.parse_ids(ids_of(ctx.model[i]))
                act = st.active_machines(a)
                if any(a.get(m) != b.get(m) for m in act):
                    fail('C09', 'active configuration after a pseudo-state step differs from the model', ctx, i,
                         sut_ids=ids_of(ctx.sut[i]), model_ids=ids_of(ctx.model[i]))
            classes[touches] += 1
            nontrivial.append((ctx.spec['id'], ids_before(ctx, i), c.get('ev'), tuple(t.split('#')[0] for t in core_s)))
        if not sync_active(ctx, i, classes):
            break
    return dict(nontrivial=nontrivial, classes=classes)


def sync_active(ctx, i, classes):
    """model and SUT agree on the configuration of all *active* machines after op i"""
    st = ctx.static
    si, mi = ids_of(ctx.sut[i]), ids_of(ctx.model[i])
    if si == mi:
        return True
    if not si or not mi:
        classes['diverged_elsewhere'] += 1
        return False
    a, b = st.parse_ids(si), st.parse_ids(mi)
    if any(a.get(m) != b.get(m) for m in st.active_machines(a)) or st.active_machines(a) != st.active_machines(b):
        classes['diverged_elsewhere'] += 1
        return False
    return True


# ---------------------------------------------------------------------------------------------- C10
def eval_expr(g, val):
    if g is None:
        return True
    if g[0] == 'g':
        return bool((val >> g[1]) & 1)
    if g[0] == 'not':
        return not eval_expr(g[1], val)
    if g[0] == 'and':
        return eval_expr(g[1], val) and eval_expr(g[2], val)
    return eval_expr(g[1], val) or eval_expr(g[2], val)


def C10(ctx):
    """Completion transitions: per (machine, region) the completion behaviours equal the model; completion work precedes
    every other pending occurrence (event-run order equals the model's); no_transition never carries a completion
    event; at every quiescent point no active simple state has an enabled completion transition left un-fired
    (model-free, uses the frozen guard values)."""
    st = ctx.static
    nontrivial = []
    classes = Counter()
    frozen = 0
    cg = S.completion_guard_atoms(ctx.spec)
    by_state = {}
    for a, s in cg.items():
        by_state.setdefault(s, []).append(a)
    blocked_kinds = ('terminate', 'interrupt')
    for i, c in enumerate(ctx.case):
        if i >= len(ctx.sut):
            break
        val = c.get('val', 0)
        toks = ctx.sut[i]
        for t in toks:
            p = parse(t)
            if p and p[0] == 'en':
                for a in by_state.get(p[1], ()):
                    frozen = (frozen & ~(1 << a)) | (val & (1 << a))
            if p and p[0] == 'nt' and p[3] == 'none':
                fail('C10', 'no_transition reported for a completion event', ctx, i)
        def proj(tk):
            out = {}
            for t in tk:
                p = parse(t)
                if p and p[0] in ('g', 'a', 'en', 'ex') and p[3] == 'none':
                    o = tok_owner(ctx, p)
                    if o:
                        # attribute to the region of the machine owning the completion row: for en/ex of nested states
                        # use the chain element at the level of the row; simplest stable key: root region + machine
                        out.setdefault(o, []).append(t)
            return out
        def firing_only(tk):
            # How often a completion guard is consulted without a firing is not observable behaviour (its atoms are frozen,
            # the answer cannot change): back asks again once per nesting level that handled an event, back +
            # favor_compile_time and backmp11 less often. Only the consultations that belong to a firing are compared: of the
            # run of completion-guard tokens directly in front of 'ex:S/none', the atoms of the rows leaving S.
            out, run = [], []
            for t in tk:
                if t.startswith('g') and t.endswith('/none'):
                    run.append(t)
                    continue
                if t.startswith('ex:') and t.endswith('/none'):
                    src = t[3:].split('/')[0]
                    seen = []
                    for g in run:
                        if cg.get(int(g[1:].split('=')[0])) == src and g not in seen:
                            seen.append(g)
                    out += seen
                run = []
                out.append(t)
            return out
        ps, pm = proj(firing_only(toks)), proj(firing_only(ctx.model[i]))
        if ps != pm:
            bad = [k for k in sorted(set(ps) | set(pm), key=str) if ps.get(k) != pm.get(k)][0]
            fail('C10', 'completion behaviours of %s differ from the model' % (bad,), ctx, i,
                 sut_seq=ps.get(bad), model_seq=pm.get(bad), ids_before=ids_before(ctx, i))
        def runs(tk):
            out = []
            for t in tk:
                p = parse(t)
                if p and p[0] in ('g', 'a', 'en', 'ex', 'nt'):
                    if p[0] == 'g' and p[3] == 'none':
                        continue        # a consulted completion guard alone is no completion work (see collapse above)
                    if not out or out[-1] != p[3]:
                        out.append(p[3])
            return out
        rs, rm = runs(toks), runs(ctx.model[i])
        if rs != rm:
            fail('C10', 'order of completion work relative to other occurrences %s differs from the model %s' % (rs, rm), ctx, i)
        # quiescence: nothing enabled is left un-fired
        idt = ids_of(toks)
        if idt and c['op'] in ('S', 'P', 'X') and not any(t.startswith(('ESCAPED', '!throw')) for t in toks):
            ids = st.parse_ids(idt)
            running = not (c['op'] == 'T')
            for nm in st.active_machines(ids):
                m = st.machine[nm]
                if any(m['states'][s]['kind'] in blocked_kinds for s in ids.get(nm, []) if s in m['states']):
                    continue
                for s in ids.get(nm, []):
                    if s not in m['states'] or m['states'][s]['kind'] != 'simple':
                        continue
                    for r in m['table']:
                        if r['src'] == s and r['ev'] is None and eval_expr(r.get('guard'), frozen):
                            fail('C10', 'state %s is active at a quiescent point although its completion transition is enabled' % s,
                                 ctx, i, sig='completion_left_pending_after_single_step' if c['op'] == 'X' and c.get('mode') == 's' else None)
        # non-triviality
        if 'none' in rs:
            chain = Counter()
            for o, seq in ps.items():
                chain[o] += sum(1 for t in seq if t.startswith('ex:'))
            gsrc = Counter()
            for t in toks:
                p = parse(t)
                if p and p[0] == 'g' and p[3] == 'none':
                    gsrc[cg.get(p[1])] += 1
            cls = []
            if len(rs) > rs.index('none') + 1:
                cls.append('completion_with_other_pending')
            if any(v >= 2 for v in chain.values()):
                cls.append('chain')
            if any(v >= 2 for v in gsrc.values()):
                cls.append('conflict')
            for k in cls:
                classes[k] += 1
            if cls:
                nontrivial.append((ctx.spec['id'], ids_before(ctx, i), c.get('ev'), tuple(t.split('#')[0] for t in toks if '/none' in t), tuple(rs and [x.split('#')[0] for x in rs])))
        classes['steps'] += 1
        if not sync_active(ctx, i, classes):
            break
    return dict(nontrivial=nontrivial, classes=classes)


# ---------------------------------------------------------------------------------------------- C03
def parse_probe(t):
    """'PB{Root=S1,S2;M1=..;v_active_recursive=a,b,;act=..;byid:M=..;fl:..}' -> dict"""
    out = {}
    for p in t[3:-1].split(';'):
        if p:
            k, _, v = p.partition('=')
            out[k] = [x for x in v.split(',') if x != '']
    return out


def C03(ctx):
    """Active configuration integrity: entry/exit ledger alternates, one ledger-active state per region of every active
    machine at each quiescent point, and every introspection API describes exactly that set; ids follow the documented
    numbering; stop() exits each active state once, innermost first; restart of a history-free machine enters the initial
    states. Model-free."""
    from .static import documented_ids
    st = ctx.static
    spec = ctx.spec
    rootname = spec['root']['name']
    dialect = dialect_of(ctx.cfg)
    classes = Counter()
    nontrivial = []
    # 4. numbering: the ids the library assigns (reported through its own metafunction) follow the documented rule
    idmap = ctx.job.get('idmap')
    if idmap:
        for nm, m in st.machine.items():
            exp = documented_ids(m, dialect)
            if idmap.get(nm) != exp:
                fail('C03', 'state ids of machine %s do not follow the documented numbering: library %s, documented %s' % (nm, idmap.get(nm), exp), ctx, None)
    active = {}        # state/machine name -> bool (ledger)
    started = False
    interesting = False

    def owner_active(name):
        if name == rootname:
            return True
        mach = st.state_owner[name][0]
        return active.get(mach, False)

    for i, c in enumerate(ctx.case):
        if i >= len(ctx.sut):
            break
        toks = ctx.sut[i]
        if any(t.startswith(('ESCAPED', '!throw', 'xc:')) for t in toks):
            classes['exception_history_skipped'] += 1
            break
        exits_in_op = []
        entered_in_op = []
        for t in toks:
            p = parse(t)
            if not p or p[0] not in ('en', 'ex'):
                continue
            name = p[1]
            if p[0] == 'en':
                if active.get(name):
                    fail('C03', 'entry behaviour of %s invoked while it is already entered (entry/exit do not alternate)' % name, ctx, i)
                if not owner_active(name):
                    fail('C03', 'substate %s entered while its submachine %s is not active' % (name, st.state_owner[name][0]), ctx, i)
                active[name] = True
                entered_in_op.append(name)
            else:
                if not active.get(name):
                    fail('C03', 'exit behaviour of %s invoked although it is not entered (entry/exit do not alternate)' % name, ctx, i)
                if name in st.machine:
                    left = [s for s in st.state_owner if st.state_owner[s][0] == name and active.get(s)]
                    if left:
                        fail('C03', 'submachine %s exited before its active substates %s' % (name, left), ctx, i)
                active[name] = False
                exits_in_op.append(name)
        if entered_in_op and any(n in st.machine and n != rootname for n in entered_in_op) or len(exits_in_op) > 2 or '!subf' in ' '.join(toks) or '!subr' in ' '.join(toks):
            interesting = True
        if c['op'] == 'S':
            started = True
            # 5b. a history-free machine starts from its initial states: after a machine's own entry the next state entered in
            # each of its regions is the region's initial state
            if all(m.get('history', 'none') == 'none' for m in st.machine.values()):
                first = {}
                for n in entered_in_op:
                    if n == rootname:
                        continue
                    key = st.state_owner[n]
                    first.setdefault(key, n)
                for (mach, reg), n in first.items():
                    init = st.machine[mach]['regions'][reg][0]
                    if mach == rootname and n != init:
                        fail('C03', 'start(): region %d of %s first entered %s instead of its initial state %s' % (reg, mach, n, init), ctx, i)
        if c['op'] == 'T':
            # 5a. stop() exits exactly the states that were active, each once (the ledger checks above) and leaves nothing active
            still = [n for n, a in active.items() if a]
            if still and started:
                fail('C03', 'after stop() the ledger still has entered states %s (no exit invoked)' % still, ctx, i)
            if exits_in_op and exits_in_op[-1] != rootname:
                fail('C03', 'stop(): the machine\'s own exit is not the last exit', ctx, i)
            started = False
        # quiescent point checks
        pb = [t for t in toks if t.startswith('PB{')]
        if not pb:
            continue
        pr = parse_probe(pb[-1])
        led = {n for n, a in active.items() if a}
        if started:
            for nm in [n for n in st.machine if n == rootname or active.get(n)]:
                if nm != rootname and not active.get(nm):
                    continue
                if nm == rootname and not active.get(rootname):
                    continue
                m = st.machine[nm]
                for ri, reg in enumerate(m['regions']):
                    act = [s for s in reg if active.get(s)]
                    if len(act) != 1:
                        fail('C03', 'region %d of active machine %s has %d entered states %s at a quiescent point' % (ri, nm, len(act), act), ctx, i)
                    got = pr.get(nm, [None] * len(m['regions']))[ri]
                    if got != act[0]:
                        fail('C03', 'current_state()/get_active_state_ids() of %s region %d reports %s but the entered state is %s' % (nm, ri, got, act[0]), ctx, i)
            want = led - {rootname}
            if 'act' in pr and set(pr['act']) != want:
                fail('C03', 'is_state_active<> true for %s but the entered states are %s' % (sorted(pr['act']), sorted(want)), ctx, i)
            if 'v_active_recursive' in pr:
                v = pr['v_active_recursive']
                if sorted(v) != sorted(want):
                    fail('C03', 'active-state visitor visited %s but the entered states are %s' % (sorted(v), sorted(want)), ctx, i)
            if 'v_active_non_recursive' in pr:
                rootact = sorted(s for s in want if st.state_owner[s][0] == rootname)
                if sorted(pr['v_active_non_recursive']) != rootact:
                    fail('C03', 'non-recursive active visitor visited %s, root active states are %s' % (pr['v_active_non_recursive'], rootact), ctx, i)
            nontrivial_key = (spec['id'], tuple(sorted(want)))
            if interesting:
                nontrivial.append(nontrivial_key)
                classes['quiescent_after_interesting'] += 1
            classes['quiescent_points'] += 1
        else:
            if dialect == 'mp11':
                for k in ('v_active_recursive', 'v_active_non_recursive', 'act'):
                    if pr.get(k):
                        fail('C03', 'backmp11 reports active states %s through %s while the machine is not running' % (pr[k], k), ctx, i)
        if 'v_all_recursive' in pr:
            allst = sorted(st.state_owner)
            if sorted(pr['v_all_recursive']) != allst:
                fail('C03', 'all-states recursive visitor visited %s, the machine has %s' % (sorted(pr['v_all_recursive']), allst), ctx, i)
            rootst = sorted(s for s in st.state_owner if st.state_owner[s][0] == rootname)
            if sorted(pr.get('v_all_non_recursive', [])) != rootst:
                fail('C03', 'all-states non-recursive visitor visited %s, root has %s' % (pr.get('v_all_non_recursive'), rootst), ctx, i)
        for k, v in pr.items():
            if k.startswith('byid:'):
                nm = k[5:]
                exp = documented_ids(st.machine[nm], dialect)
                inv = [None] * len(exp)
                for s, idx in exp.items():
                    inv[idx] = s
                if v != inv:
                    fail('C03', 'get_state_by_id of %s returns %s, documented numbering gives %s' % (nm, v, inv), ctx, i)
    return dict(nontrivial=nontrivial, classes=classes)


# ---------------------------------------------------------------------------------------------- C04
_sub_re = re.compile(r'^!sub([frqQ]):(\d+)#(\d+)$')
_pay_re = re.compile(r'#(\d+)$')


def payload_of(p):
    """payload id from a parsed token's event description ('E0#17' -> 17), None for none/?"""
    m = _pay_re.search(p[3])
    return int(m.group(1)) if m else None


def behaviour_fsm(ctx, p):
    """machine passed as `fsm` to the behaviour that produced parsed token p"""
    st = ctx.static
    root = ctx.spec['root']['name']
    if p[0] in ('g', 'a'):
        o = tok_owner(ctx, p)
        return o[0] if o else root
    if p[0] in ('en', 'ex'):
        if p[1] in st.state_owner:
            return st.state_owner[p[1]][0]
        return root
    if p[0] == 'xc':
        return p[1]
    return root


def subtree(ctx, mach):
    st = ctx.static
    out = {mach}
    changed = True
    while changed:
        changed = False
        for m, par in st.parent.items():
            if par in out and m not in out:
                out.add(m)
                changed = True
    return out


def C04(ctx):
    """Run-to-completion: a submission from a behaviour returns at once (nothing is dispatched inside the submitting
    call); stored occurrences are dispatched exactly once, in submission order per receiving machine, only to behaviours
    of the machine they were sent to; execute-all drains in order and execute-single dispatches exactly the oldest.
    Model-free invariants over the whole history; plus per-occurrence agreement with the model while the dispatch order
    agrees."""
    st = ctx.static
    root = ctx.spec['root']['name']
    classes = Counter()
    nontrivial = []
    target = {}          # payload -> machine it was sent to
    stored = {}          # machine -> list of payloads stored (submission order), not yet dispatched
    immediate = set()
    dispatched = []      # payloads in order of first dispatch token
    seen = set()
    cur_by_target = {}
    maybe_silent = set()
    in_root_entry = set()
    in_aborted_entry = set()   # submitted to a submachine during its entry, which an exception then aborted (backmp11 keeps the pool content)
    for i, c in enumerate(ctx.case):
        if i >= len(ctx.sut):
            break
        toks = ctx.sut[i]
        if any(t.startswith('ESCAPED') for t in toks):
            fail('C04', 'an exception escaped the library', ctx, i)
        opk = c['op']
        if opk == 'P':
            target[c['payload']] = root
            immediate.add(c['payload'])
        elif opk == 'Q':
            target[c['payload']] = root
            stored.setdefault(root, []).append(c['payload'])
        pend_before = list(stored.get(root, []))
        last_cb = None
        nsub = 0
        nested_or_entry = False
        dispatched_in_op = []
        k = 0
        while k < len(toks):
            t = toks[k]
            m = _sub_re.match(t)
            if m:
                how, evi, pl = m.group(1), int(m.group(2)), int(m.group(3))
                # A: the submitting call returns at once
                if k + 1 >= len(toks) or toks[k + 1] != '!ret':
                    sig = None
                    if last_cb and last_cb[0] == 'ex' and how == 'f' and last_cb[1] in st.state_owner:
                        # RC8 shape: exit behaviour of a substate of M submits to M while a transition of an enclosing
                        # machine (which later exits M itself) is running the exit cascade
                        mach = st.state_owner[last_cb[1]][0]
                        if mach != root and (any(x.startswith('ex:%s/' % mach) for x in toks[k:]) or '!throw' in toks[k:]):
                            sig = 'submission_from_exit_behaviour_dispatched_inside_cascade'
                    fail('C04', 'event submitted from behaviour %s was dispatched inside the submitting call (interrupts the running step)'
                         % (toks[k - 1] if k else '?'), ctx, i, sig=sig)
                tgt = root if how in ('r', 'Q') else (behaviour_fsm(ctx, last_cb) if last_cb else root)
                target[pl] = tgt
                stored.setdefault(tgt, []).append(pl)
                if how == 'q' and tgt != root:
                    # enqueue_event on a contained machine: an unmatched occurrence is dispatched without any observable
                    # behaviour (no no_transition for contained machines), so its dispatch may be invisible
                    maybe_silent.add(pl)
                if opk == 'S' and last_cb and last_cb[0] == 'en' and last_cb[1] == root:
                    in_root_entry.add(pl)
                if tgt != root and any(x.startswith('en:%s/' % tgt) for x in toks[:k]) and '!throw' in toks[k:]:
                    # stored in the pool of a submachine that is being entered, and the entry is then aborted by an exception
                    in_aborted_entry.add(pl)
                nsub += 1
                if tgt != root or (last_cb and last_cb[0] == 'en'):
                    nested_or_entry = True
                k += 2
                continue
            p = parse(t)
            if p and p[0] in ('g', 'a', 'en', 'ex', 'nt', 'xc'):
                last_cb = p
                pl = payload_of(p)
                if pl is not None:
                    if pl not in target:
                        fail('C04', 'behaviour saw an occurrence #%d that was never submitted' % pl, ctx, i)
                    tg = target[pl]
                    own = p[1] if p[0] in ('nt', 'xc') else (tok_owner(ctx, p) or (root, None))[0]
                    if own not in subtree(ctx, tg):
                        fail('C04', 'occurrence #%d sent to %s was seen by a behaviour of %s (%s)' % (pl, tg, own, t), ctx, i)
                    # contiguity is judged per receiving machine: an occurrence sent to a submachine may legitimately be
                    # dispatched by that submachine between two regions of the enclosing machine's step
                    cur_block = cur_by_target.get(tg)
                    if pl != cur_block:
                        if pl in seen:
                            fail('C04', 'occurrence #%d (sent to %s) is dispatched in two separate blocks, interleaved with #%s sent to the same machine'
                                 % (pl, tg, cur_block), ctx, i)
                        seen.add(pl)
                        cur_by_target[tg] = pl
                        dispatched.append(pl)
                        dispatched_in_op.append(pl)
                        if pl in immediate:
                            pass
                        else:
                            q = stored.get(tg, [])
                            while q and q[0] != pl and q[0] in maybe_silent:
                                q.pop(0)
                                classes['possibly_silent_dispatch'] += 1
                            if not q or q[0] != pl:
                                if pl in q:
                                    sig = None
                                    if dialect_of(ctx.cfg) == 'mp11' and all(x in in_aborted_entry for x in q[:q.index(pl)]):
                                        sig = 'mp11_stale_completion_occurrence_after_throw_in_entry'    # same root cause, user occurrence
                                    fail('C04', 'occurrence #%d sent to %s dispatched before older pending occurrences %s (not FIFO)'
                                         % (pl, tg, q[:q.index(pl)]), ctx, i, sig=sig)
                                fail('C04', 'occurrence #%d dispatched although it is not pending' % pl, ctx, i)
                            q.pop(0)
            k += 1
        # a direct call on a quiescent machine is dispatched in that call
        if opk == 'P' and c['payload'] not in seen:
            fail('C04', 'process_event(#%d) on a quiescent machine produced no dispatch at all' % c['payload'], ctx, i)
        if opk == 'X':
            got = [pl for pl in dispatched_in_op if target.get(pl) == root and pl in pend_before]
            if c['mode'] == 's':
                if pend_before and 'skip' not in toks:
                    first = [pl for pl in dispatched_in_op if target.get(pl) == root]
                    if not first or first[0] != pend_before[0] or len([x for x in first if x in pend_before]) != 1:
                        fail('C04', 'single-step execution dispatched %s, expected exactly the oldest pending occurrence #%d' % (first, pend_before[0]), ctx, i)
            else:
                if got != pend_before:
                    fail('C04', 'execute_queued_events dispatched %s, pending were %s' % (got, pend_before), ctx, i)
                if stored.get(root):
                    fail('C04', 'execute_queued_events returned with occurrences %s still pending' % stored[root], ctx, i)
        if opk in ('P', 'S') and stored.get(root):
            # after a direct call returns the machine has drained everything submitted meanwhile
            if opk == 'P' or dialect_of(ctx.cfg) == 'mp11' or True:
                left = [pl for pl in stored[root] if pl not in pend_before or opk == 'P']
                if opk == 'P' and left:
                    sig = 'submission_in_root_entry_during_start_dropped' if (dialect_of(ctx.cfg) == 'mp11' and all(x in in_root_entry for x in left)) else None
                    fail('C04', 'process_event returned although occurrences %s submitted earlier were never dispatched (lost)' % left, ctx, i, sig=sig)
        for t in toks:
            if t.startswith('pend='):
                n = int(t[5:])
                exp = len(stored.get(root, []))
                if (dialect_of(ctx.cfg) == 'back' and n != exp) or n < exp:
                    fail('C04', 'pending count reported %d, %d occurrences are stored' % (n, exp), ctx, i)
        if nsub >= 2 and nested_or_entry:
            nontrivial.append((ctx.spec['id'], ids_before(ctx, i), tuple(t.split('#')[0] for t in toks if t.startswith('!sub')), tuple(dispatched_in_op and [len(dispatched_in_op)])))
            classes['multi_submission_step'] += 1
        if nsub:
            classes['steps_with_submission'] += 1
        classes['steps'] += 1
    # end of history: everything submitted was dispatched once or is still pending
    for pl, tg in target.items():
        if pl not in seen and pl not in stored.get(tg, []) and pl not in maybe_silent:
            fail('C04', 'occurrence #%d sent to %s was neither dispatched nor is it pending (lost)' % (pl, tg), ctx, len(ctx.sut) - 1)
    # per-occurrence agreement with the model while the dispatch order agrees (exception-free histories only: what happens
    # to a completion transition aborted by an exception is not specified and differs between compile policies)
    if any(t == '!throw' for op in ctx.sut for t in op):
        classes['histories_with_exceptions'] += 1
        return dict(nontrivial=nontrivial, classes=classes)
    try:
        mtoks = ctx.model
        mdisp = []
        blocks_m, blocks_s = {}, {}
        for src, store, disp in ((mtoks, blocks_m, mdisp), (ctx.sut, blocks_s, None)):
            for op in src:
                for t in op:
                    p = parse(t)
                    if p and p[0] in ('g', 'a', 'en', 'ex', 'nt', 'xc'):
                        pl = payload_of(p)
                        if pl is not None:
                            if pl not in store and disp is not None:
                                disp.append(pl)
                            store.setdefault(pl, []).append(t)
        if mdisp == dispatched:
            classes['dispatch_order_equals_model'] += 1
            for pl in dispatched:
                if blocks_m.get(pl) != blocks_s.get(pl):
                    fail('C04', 'behaviours run for occurrence #%d differ from the model (dispatched twice, partially, or in another configuration)' % pl,
                         ctx, None, sut_block=blocks_s.get(pl), model_block=blocks_m.get(pl))
        else:
            classes['dispatch_order_differs_from_model'] += 1
    except Violation:
        raise
    except Exception as e:
        classes['model_error'] += 1
    return dict(nontrivial=nontrivial, classes=classes)


# ---------------------------------------------------------------------------------------------- C05
def deferring_states(ctx):
    """state name -> set of event type names it defers (static)"""
    st = ctx.static
    if hasattr(st, '_defer'):
        return st._defer
    d = {}
    for s, (nm, ri) in st.state_owner.items():
        sd = st.machine[nm]['states'][s]
        lst = sd.get('deferred') or []
        if sd['kind'] == 'sub':
            lst = sd['machine'].get('as_state', {}).get('deferred') or []
        if lst:
            d[s] = set(lst)
    # the second mechanism: an unguarded row whose action is Defer
    for nm, m in st.machine.items():
        for r in m['table']:
            if r.get('actions') == 'defer' and r.get('guard') is None and isinstance(r['src'], str):
                d.setdefault(r['src'], set()).add(r['ev'])
    st._defer = d
    return d


def C05(ctx):
    """Deferred events: retained at the moment of deferral (no no_transition, no behaviour sees them), never dispatched
    while an entered state defers their type, re-offered so that no deferred occurrence is pending at a quiescent point
    unless an entered state defers its type, same-type occurrences in arrival order, each dispatched exactly once.
    Model-free invariants over the whole history.  An occurrence counts as *deferred* from the moment it is known to have
    been offered: a direct process_event arriving in a deferring configuration, or anything still pending after an
    operation that offers every stored occurrence (a dispatched direct call, execute_queued_events)."""
    st = ctx.static
    dfr = deferring_states(ctx)
    evname = [e['name'] for e in ctx.spec['events']]
    classes = Counter()
    nontrivial = []
    etype = {}           # payload -> event type name
    pending = []         # payloads submitted and not yet dispatched
    stamp = {}           # payload -> operation index at which it is known to have been deferred (arrival order)
    done = set()
    active = set()       # ledger of entered states
    last_by_type = {}    # type -> (stamp, payload) of the last re-offered occurrence
    exact = set()        # occurrences whose moment of deferral is known exactly
    multi_deferred = set()   # occurrences pending while states of >= 2 regions deferred their type
    toks_of = {}             # payload -> behaviour tokens seen for it
    done_op = {}             # payload -> operation in which it was dispatched
    waited = {}

    # conditional deferral (backmp11 is_event_deferred): (state, type) -> atom of the predicate; the predicate's verdict for an
    # occurrence is read from the trace (token g<atom>=v/<type>#<payload>), never assumed
    cond = {}
    for s_, (nm_, ri_) in st.state_owner.items():
        for e_, a_ in st.machine[nm_]['states'][s_].get('cond_defer') or []:
            cond[(s_, e_)] = a_
    cond_atoms = {(a_, e_) for (s_, e_), a_ in cond.items()}
    lastpred = {}        # payload -> last verdict of a deferral predicate for this occurrence

    def deferred_by_active(tname, pl=None):
        """True / False, or None when only conditional deferrers are entered and no verdict for pl has been seen"""
        unknown = False
        for s in active:
            if tname in dfr.get(s, ()):
                if (s, tname) not in cond:
                    return True
                v = lastpred.get(pl)
                if v:
                    return True
                if v is None:
                    unknown = True
        return None if unknown else False

    for i, c in enumerate(ctx.case):
        if i >= len(ctx.sut):
            break
        toks = ctx.sut[i]
        opk = c['op']
        if any(t.startswith('ESCAPED') for t in toks):
            fail('C05', 'an exception escaped the library', ctx, i)
        own = None
        if opk == 'P':
            etype[c['payload']] = evname[c['ev']]
            pending.append(c['payload'])
            own = c['payload']
            if deferred_by_active(evname[c['ev']], own) is True:
                stamp[own] = i
                exact.add(own)
                classes['deferred_on_arrival'] += 1
        elif opk == 'Q':
            etype[c['payload']] = evname[c['ev']]
            pending.append(c['payload'])
        cur = None
        own_dispatched = False
        for k, t in enumerate(toks):
            m = _sub_re.match(t)
            if m:
                pl = int(m.group(3))
                etype[pl] = evname[int(m.group(2))]
                pending.append(pl)
                continue
            p = parse(t)
            if not p:
                continue
            if p[0] == 'g' and (p[1], p[3].split('#')[0]) in cond_atoms and payload_of(p) is not None:
                # verdict of a deferral predicate: not a dispatch
                pl = payload_of(p)
                lastpred[pl] = bool(p[2])
                if p[2] and pl not in stamp:
                    stamp[pl] = i
                    if pl == own:
                        exact.add(pl)
                    classes['deferred_by_predicate'] += 1
                continue
            if p[0] in ('g', 'a', 'en', 'ex', 'nt', 'xc'):
                pl = payload_of(p)
                if pl is not None:
                    # one dispatch shows every behaviour token of an occurrence at most once (its block may be interrupted: a
                    # submachine that handled it processes its own pending occurrences before the enclosing machine goes on
                    # with its next region), a second dispatch repeats tokens or happens in a later operation
                    if t in toks_of.setdefault(pl, set()) or (pl in done and done_op.get(pl) != i):
                        sig = 'back_event_stored_once_per_deferring_region' if (dialect_of(ctx.cfg) == 'back' and pl in multi_deferred) else None
                        fail('C05', 'occurrence #%d (%s) is dispatched a second time' % (pl, etype.get(pl)), ctx, i, sig=sig)
                    toks_of[pl].add(t)
                if pl is not None and pl != cur and pl not in done:
                    cur = pl
                    done_op[pl] = i
                    if pl not in etype:
                        fail('C05', 'behaviour saw an occurrence #%d that was never submitted' % pl, ctx, i)
                    tn = etype[pl]
                    if deferred_by_active(tn, pl) is True:
                        what = 'reported through no_transition' if p[0] == 'nt' else 'dispatched (%s)' % t
                        sig = None
                        if dialect_of(ctx.cfg) == 'mp11' and any(r.get('actions') == 'defer' and r['ev'] == tn and nm_ != ctx.spec['root']['name']
                                                                  for nm_, mm in st.machine.items() for r in mm['table']):
                            # kept in the submachine's own pool: re-offered by that submachine alone, whatever the states of
                            # the enclosing levels defer
                            sig = 'mp11_action_deferred_in_submachine_stranded_on_exit'
                        fail('C05', 'occurrence #%d of deferred type %s was %s while the entered states %s defer it'
                             % (pl, tn, what, sorted(s for s in active if tn in dfr.get(s, ()))), ctx, i, sig=sig)
                    if pl == own:
                        own_dispatched = True
                    if pl in stamp:
                        prev = last_by_type.get(tn)
                        # arrival order is only known exactly for occurrences deferred on arrival (direct calls)
                        if pl in exact and prev is not None and prev[1] in exact and prev[0] > stamp[pl]:
                            sig = None
                            if dialect_of(ctx.cfg) == 'mp11' and any(r.get('actions') == 'defer' and r['ev'] == tn
                                                                      for mm in st.machine.values() for r in mm['table']):
                                # backmp11 re-dispatches action-deferred events for evaluation; one that is deferred again is
                                # appended behind the others (documented: only deferral as a state property is FIFO)
                                sig = 'mp11_action_deferred_occurrences_reordered'
                            fail('C05', 'deferred occurrences of type %s re-offered out of arrival order (#%d, deferred in op %d, after #%d, deferred in op %d)'
                                 % (tn, pl, stamp[pl], prev[1], prev[0]), ctx, i, sig=sig)
                        last_by_type[tn] = (stamp[pl], pl)
                        classes['reoffered'] += 1
                        if waited.get(pl, 0) >= 1:
                            multi = len({etype[x] for x in pending if x in stamp}) >= 2
                            nontrivial.append((ctx.spec['id'], tn, tuple(sorted(active)), min(waited.get(pl, 0), 6), tuple(sorted(etype[x] for x in pending if x in stamp))[:6], opk))
                            classes['reoffered_after_other_events'] += 1
                            if multi:
                                classes['two_deferred_types_pending'] += 1
                    done.add(pl)
                    if pl in pending:
                        pending.remove(pl)
            if p[0] == 'en':
                active.add(p[1])
            elif p[0] == 'ex':
                active.discard(p[1])
        if opk == 'T':
            active.clear()
        offers_all = (opk == 'P' and own_dispatched) or (opk == 'X' and c.get('mode') == 'a') or opk == 'S'
        if 'skip' in toks:
            offers_all = False
        for pl in list(pending):
            tn = etype[pl]
            if sum(1 for s_ in active if tn in dfr.get(s_, ())) >= 2:
                multi_deferred.add(pl)
            if pl in stamp or offers_all:
                if deferred_by_active(tn, pl) is False and opk in ('P', 'X', 'S'):
                    sig = None
                    if opk == 'X' and c.get('mode') == 's' and dialect_of(ctx.cfg) == 'mp11' and pl in stamp:
                        sig = 'deferred_not_reoffered_after_single_step'
                    if dialect_of(ctx.cfg) == 'mp11' and any(c2['op'] == 'RP' and c2['n'] >= 65000 for c2 in ctx.case[:i]):
                        sig = 'mp11_deferred_sequence_counter_wraps'
                    if dialect_of(ctx.cfg) == 'mp11' and any(r.get('actions') == 'defer' and r['ev'] == tn and nm_ != ctx.spec['root']['name']
                                                              for nm_, mm in st.machine.items() for r in mm['table']):
                        # deferred by a Defer row of a substate: stored in the submachine's own pool, stranded there when the
                        # submachine is exited (dropped at the next entry without history)
                        sig = 'mp11_action_deferred_in_submachine_stranded_on_exit'
                    fail('C05', 'occurrence #%d (%s) is still pending at a quiescent point although no entered state defers %s (entered: %s)'
                         % (pl, tn, tn, sorted(active)), ctx, i, sig=sig)
                if pl not in stamp:
                    stamp[pl] = i
            if pl in stamp and pl != own:
                waited[pl] = waited.get(pl, 0) + 1
        if own is not None and own in stamp and own in pending:
            waited.setdefault(own, 0)
        for t in toks:
            if t.startswith('pend='):
                n = int(t[5:])
                if n < len(pending) or (dialect_of(ctx.cfg) == 'back' and n != len(pending)):
                    sig = None
                    if dialect_of(ctx.cfg) == 'back' and n > len(pending):
                        for pl in pending:
                            if sum(1 for s_ in active if etype[pl] in dfr.get(s_, ())) >= 2:
                                sig = 'back_event_stored_once_per_deferring_region'
                    if dialect_of(ctx.cfg) == 'mp11' and n < len(pending):
                        sub_defer = {r['ev'] for nm_, mm in st.machine.items() if nm_ != ctx.spec['root']['name']
                                     for r in mm['table'] if r.get('actions') == 'defer'}
                        if any(etype[pl] in sub_defer for pl in pending):
                            sig = 'mp11_action_deferred_in_submachine_stranded_on_exit'     # dropped at a later entry of the submachine
                    fail('C05', 'pending count %d but %d occurrences are retained (%s)' % (n, len(pending), pending), ctx, i, sig=sig)
        classes['steps'] += 1
    return dict(nontrivial=nontrivial, classes=classes)


# ---------------------------------------------------------------------------------------------- C11
def C11(ctx):
    """Terminate / interrupt states: while a terminate state is entered nothing at all happens for any other occurrence;
    while an interrupt state is entered the same holds except for its end-interrupt event types, which are processed
    normally (step compared with the model); swallowed occurrences are never replayed. Model-free ledger invariant plus a
    model comparison for the end-interrupt steps."""
    st = ctx.static
    root = ctx.spec['root']
    evname = [e['name'] for e in ctx.spec['events']]
    kinds = {s: sd['kind'] for s, sd in root['states'].items()}
    endev = {s: set(sd.get('end_events') or []) for s, sd in root['states'].items()}
    classes = Counter()
    nontrivial = []
    blocking = {}        # entered blocking state -> event description current when it was entered
    swallowed = set()
    admitted = set()
    etype = {}
    in_sync = True
    for i, c in enumerate(ctx.case):
        if i >= len(ctx.sut):
            break
        toks = ctx.sut[i]
        opk = c['op']
        if any(t.startswith('ESCAPED') for t in toks):
            fail('C11', 'an exception escaped the library', ctx, i)
        if opk in ('P', 'Q'):
            etype[c['payload']] = evname[c['ev']]
        was_blocked = bool(blocking)
        blocked_at_start = dict(blocking)
        for t in toks:
            m = _sub_re.match(t)
            if m:
                etype[int(m.group(3))] = evname[int(m.group(2))]
                continue
            p = parse(t)
            if not p or p[0] not in ('g', 'a', 'en', 'ex', 'nt', 'xc'):
                continue
            d = p[3]
            pl = payload_of(p)
            if pl is not None and pl in swallowed:
                fail('C11', 'occurrence #%d was swallowed while the machine was blocked but is processed later (%s)' % (pl, t), ctx, i)
            if blocking and opk != 'T':
                term = [s for s in blocking if kinds[s] == 'terminate']
                same = any(d == cur for cur in blocking.values())
                tn = d.split('#')[0]
                # an occurrence is admitted or swallowed as a whole, at the moment it is offered to the machine
                if d in admitted:
                    is_end = True
                else:
                    is_end = (not term) and any(tn in endev[s] for s in blocking if kinds[s] == 'interrupt')
                    if is_end:
                        admitted.add(d)
                if not same and not is_end:
                    fail('C11', 'behaviour %s ran although %s state %s is active' % (t, 'terminate' if term else 'interrupt', sorted(blocking)), ctx, i)
                if is_end and not same:
                    classes['end_interrupt_behaviour'] += 1
            if p[0] == 'en' and kinds.get(p[1]) in ('terminate', 'interrupt'):
                blocking[p[1]] = d
            elif p[0] == 'ex' and p[1] in blocking:
                del blocking[p[1]]
        if opk == 'T':
            blocking.clear()
        # submissions made while blocked (at op start) that are not end-interrupt events are swallowed
        if was_blocked and opk == 'P':
            term = [s for s in blocked_at_start if kinds[s] == 'terminate']
            tn = evname[c['ev']]
            is_end = (not term) and any(tn in endev[s] for s in blocked_at_start if kinds[s] == 'interrupt')
            if not is_end:
                swallowed.add(c['payload'])
                if ids_of(toks) != ids_before(ctx, i):
                    fail('C11', 'active configuration changed while the machine is blocked', ctx, i)
                classes['swallowed'] += 1
            else:
                # processed normally in all regions: compare with the model
                if in_sync and [t for t in toks if not t.startswith('ids{')] != [t for t in ctx.model[i] if not t.startswith('ids{')]:
                    sig = None
                    if ctx.cfg % 10 == 7 and not any(r[3]['ev'] == tn for r in st.rows):
                        sig = 'mp11_ct_end_interrupt_event_without_row_treated_as_blocked'
                    fail('C11', 'end-interrupt event %s is not processed as the model predicts' % tn, ctx, i, sig=sig)
                classes['end_interrupt_step'] += 1
                if len(root['regions']) > 1:
                    classes['end_interrupt_multi_region'] += 1
            nontrivial.append((ctx.spec['id'], tuple(sorted(blocked_at_start)), tn, is_end, ids_before(ctx, i)))
        if was_blocked and opk == 'X':
            classes['execute_queued_while_blocked'] += 1
            nontrivial.append((ctx.spec['id'], tuple(sorted(blocked_at_start)), 'X', c.get('mode'), ids_before(ctx, i)))
        if in_sync and not sync_active(ctx, i, Counter()):
            in_sync = False
            classes['diverged_elsewhere'] += 1
        classes['steps'] += 1
    return dict(nontrivial=nontrivial, classes=classes)


def policy_probes(ctx, tk, ledger):
    """probes taken inside behaviours, each with its host token. A submachine that the switch policy already reports as
    active but whose entry has not run yet (switch point before the entry phase) has no defined inner configuration: what the
    flags say about its substates differs between the back-ends and is described by no property; such probes keep their ids
    only. Returns (probes, ledger of entered submachines after tk, number of reduced probes)."""
    st = ctx.static
    out, led, nhalf = [], set(ledger), 0
    for k, t in enumerate(tk):
        pp = parse(t)
        if pp and pp[0] == 'en' and pp[1] in st.machine:
            led.add(pp[1])
        elif pp and pp[0] == 'ex' and pp[1] in st.machine:
            led.discard(pp[1])
        if t.startswith('pb{'):
            parts = [x for x in t[3:-1].split(';') if x]
            idparts = [x for x in parts if not re.match(r'^F\d+=', x)]
            ids = st.parse_ids('ids{' + ';'.join(idparts) + ';}')
            if any(mn != ctx.spec['root']['name'] and mn not in led for mn in st.active_machines(ids)):
                t = 'pb{' + ';'.join(idparts) + ';}'
                nhalf += 1
            host = ''
            for h in reversed(tk[:k]):
                if not h.startswith('pb{'):
                    host = h
                    break
            out.append((host, t))
    return out, led, nhalf


# ---------------------------------------------------------------------------------------------- C17
def flags_of_state(ctx, mach, s):
    sd = ctx.static.machine[mach]['states'][s]
    if sd['kind'] == 'sub':
        return set(sd['machine'].get('as_state', {}).get('flags') or [])
    return set(sd.get('flags') or [])


def config_flags(ctx, mach, ids):
    """flags carried by the active configuration of machine `mach` (recursively), given ids by machine"""
    out = set()
    for s in ids.get(mach, []):
        if s not in ctx.static.machine[mach]['states']:
            continue
        out |= flags_of_state(ctx, mach, s)
        if ctx.static.machine[mach]['states'][s]['kind'] == 'sub':
            out |= config_flags(ctx, s, ids)
    return out


def C17(ctx):
    """Flags are a pure function of the active configuration: at every quiescent point, for every active machine and
    flag, is_flag_active<F>() <=> some state of its active configuration (recursively) carries F, and the AND form <=>
    every region's active state carries F (only where that level has only simple active states). Inside behaviours the
    answer and the reported ids equal the model's policy-defined configuration."""
    st = ctx.static
    spec = ctx.spec
    rootname = spec['root']['name']
    flags = spec.get('flags', [])
    classes = Counter()
    nontrivial = []
    started = False
    in_sync = True
    entered = set()      # ledger of entered submachines (see policy_probes)
    for i, c in enumerate(ctx.case):
        if i >= len(ctx.sut):
            break
        toks = ctx.sut[i]
        if c['op'] == 'S':
            started = True
        if c['op'] == 'T':
            started = False
        # probes inside behaviours: compare with the model (configuration per switch policy)
        if in_sync:
            ps, entered_after, nh = policy_probes(ctx, toks, entered)
            pm, _, _ = policy_probes(ctx, ctx.model[i], entered)
            entered = entered_after
            ps, pm = [x[1] for x in ps], [x[1] for x in pm]
            classes['probe_with_half_entered_submachine_ids_only'] += nh
            if ps != pm:
                k = 0
                while k < min(len(ps), len(pm)) and ps[k] == pm[k]:
                    k += 1
                fail('C17', 'flags/ids observed inside a behaviour differ from the policy-defined configuration: %s vs model %s'
                     % (ps[k] if k < len(ps) else None, pm[k] if k < len(pm) else None), ctx, i)
            if ps:
                classes['probes_inside_behaviours'] += len(ps)
        pb = [t for t in toks if t.startswith('PB{')]
        if pb and started:
            pr = parse_probe(pb[-1])
            ids = {k: v for k, v in pr.items() if k in st.machine}
            for mach in st.active_machines(ids):
                cf = config_flags(ctx, mach, ids)
                m = st.machine[mach]
                simple_level = all(m['states'][s]['kind'] != 'sub' for s in ids.get(mach, []) if s in m['states'])
                per_region = [flags_of_state(ctx, mach, s) for s in ids.get(mach, []) if s in m['states']]
                for f in flags:
                    v = pr.get('fl:%s:%s' % (mach, f))
                    if not v:
                        continue
                    got_or, got_and = v[0][0] == '1', v[0][1] == '1'
                    exp_or = f in cf
                    if got_or != exp_or:
                        fail('C17', 'is_flag_active<%s>() on %s is %s but the active configuration %s %s it'
                             % (f, mach, got_or, {k: ids[k] for k in st.active_machines(ids)}, 'carries' if exp_or else 'does not carry'), ctx, i)
                    if simple_level:
                        exp_and = all(f in x for x in per_region)
                        if got_and != exp_and:
                            fail('C17', 'is_flag_active<%s, AND>() on %s is %s, expected %s for active states %s'
                                 % (f, mach, got_and, exp_and, ids.get(mach)), ctx, i)
                        if exp_or != exp_and:
                            classes['or_differs_from_and'] += 1
                            nontrivial.append((spec['id'], mach, f, tuple(tuple(ids[k]) for k in st.active_machines(ids))))
                    levels = [mm for mm in st.active_machines(ids) if mm != mach and mm in subtree(ctx, mach)]
                    if levels and exp_or and not any(f in x for x in per_region):
                        classes['flag_only_in_nested_level'] += 1
                        nontrivial.append((spec['id'], mach, f, 'nested', tuple(tuple(ids[k]) for k in st.active_machines(ids))))
            classes['quiescent_probes'] += 1
        if in_sync and not sync_active(ctx, i, Counter()):
            in_sync = False
    return dict(nontrivial=nontrivial, classes=classes)


# ---------------------------------------------------------------------------------------------- C19
def C19(ctx):
    """Active-state-switch policy: what behaviours observe inside each phase of a transition (reported ids, flags)
    equals the documented policy table (model R-policy); with the probes removed the trace equals the policy-independent
    model trace, so the four policies are indistinguishable outside transitions."""
    st = ctx.static
    classes = Counter()
    nontrivial = []
    pol = ctx.spec['root'].get('policy', 'default')
    entered = set()      # ledger of entered submachines
    for i, c in enumerate(ctx.case):
        if i >= len(ctx.sut):
            break
        toks, mt = ctx.sut[i], ctx.model[i]
        a = [t for t in toks if not t.startswith('pb{')]
        b = [t for t in mt if not t.startswith('pb{')]
        if a != b:
            k = 0
            while k < min(len(a), len(b)) and a[k] == b[k]:
                k += 1
            fail('C19', 'trace (probes removed) under policy %s differs from the policy-independent model at token %d: %s vs %s'
                 % (pol, k, a[k] if k < len(a) else None, b[k] if k < len(b) else None), ctx, i)
        # probes: compare one by one, remembering the behaviour that hosted each probe
        ps, entered_after, nh = policy_probes(ctx, toks, entered)
        pm, _, _ = policy_probes(ctx, mt, entered)
        entered = entered_after
        classes['probe_with_half_entered_submachine_ids_only'] += nh
        if ps != pm:
            k = 0
            while k < min(len(ps), len(pm)) and ps[k] == pm[k]:
                k += 1
            fail('C19', 'policy %s: ids/flags observed from behaviour %s are %s, the policy table gives %s'
                 % (pol, ps[k][0] if k < len(ps) else None, ps[k][1] if k < len(ps) else None, pm[k][1] if k < len(pm) else None), ctx, i)
        for host, t in ps:
            p = parse(host)
            if p and p[0] in ('g', 'a', 'en', 'ex'):
                phase = {'g': 'guard', 'a': 'action', 'en': 'entry', 'ex': 'exit'}[p[0]]
                classes['probe_in_' + phase] += 1
                # non-trivial: probe hosted by a behaviour of an external transition (the op has an exit and an entry)
                if any(x.startswith('ex:') for x in toks) and any(x.startswith('en:') for x in toks):
                    nontrivial.append((ctx.spec['id'], pol, phase, host.split('/')[0], t))
        classes['steps'] += 1
    return dict(nontrivial=nontrivial, classes=classes)


# ---------------------------------------------------------------------------------------------- C12
def C12(ctx):
    """Exceptions from behaviours (fault enumeration: every callback position of the designated step is a throw point).
    Model-free: nothing escapes; exactly one exception_caught for the fault, carrying the occurrence being processed;
    the trace up to the throw equals the fault-free run; no no_transition for the event when the machine on which
    process_event was called caught it. Model: the whole faulted step (catching level, reaction of enclosing levels,
    no further behaviour of the aborted transition), the active configuration afterwards (switch policy x phase), and all
    continuation steps (not wedged, pending occurrences still processed in order)."""
    st = ctx.static
    classes = Counter()
    nontrivial = []
    ex = getattr(ctx, 'extra', None)
    rootname = ctx.spec['root']['name']
    for i, toks in enumerate(ctx.sut):
        if any(t.startswith('ESCAPED') for t in toks):
            fail('C12', 'an exception escaped the library call', ctx, i)
    if ex is None:
        # fault-free baseline: the model must agree (keeps the comparison below meaningful)
        for i in range(len(ctx.sut)):
            if ctx.sut[i] != ctx.model[i]:
                classes['baseline_diverges_from_model'] += 1
                break
        return dict(nontrivial=[], classes=classes)
    fi, k, base = ex['fault_index'], ex['k'], ex['baseline']
    toks = ctx.sut[fi]
    if '!throw' not in toks:
        classes['throw_position_not_reached'] += 1
        return dict(nontrivial=[], classes=classes)
    tpos = toks.index('!throw')
    # 7. prefix up to the throw equals the fault-free run
    for j in range(fi):
        if ctx.sut[j] != base[j]:
            fail('C12', 'run with a fault injected later differs from the fault-free run before the fault (op %d)' % j, ctx, j)
    if toks[:tpos] != base[fi][:tpos]:
        fail('C12', 'behaviours before the throw differ from the fault-free run', ctx, fi, baseline=' '.join(base[fi]))
    host = parse(toks[tpos - 1]) if tpos else None
    # 2. exactly one exception_caught for this fault, with the occurrence being processed
    xcs = [parse(t) for t in toks[tpos:] if t.startswith('xc:')]
    # (scripts in the continuation may inject further faults; in the faulted op there is exactly this one)
    nthrows = sum(1 for t in toks if t == '!throw')
    if len(xcs) != nthrows:
        fail('C12', 'exception_caught invoked %d times for %d thrown exception(s)' % (len(xcs), nthrows), ctx, fi)
    if host and xcs and xcs[0][3] != host[3]:
        fail('C12', 'exception_caught received %s but the behaviour that threw was processing %s' % (xcs[0][3], host[3]), ctx, fi)
    # 4. no no_transition for that event when the outermost machine caught it
    if xcs and xcs[0][1] == rootname and host:
        for t in toks[tpos:]:
            p = parse(t)
            if p and p[0] == 'nt' and p[3] == host[3]:
                fail('C12', 'no_transition reported for the event whose processing threw', ctx, fi)
    # 3/5/6: faulted step, configuration afterwards and continuation equal the model
    compare = True
    if host and host[3] == 'none' and ctx.cfg % 10 == 2 and st.level.get(behaviour_fsm(ctx, host), 1) >= 2:
        # whether a completion transition of a SUBmachine that was aborted by an exception is tried again when the
        # enclosing machine finishes the event is fixed by no property: back does (the enclosing level offers the
        # completion event to its submachines once more), back + favor_compile_time does not. The model follows back.
        compare = False
        classes['completion_fault_in_submachine_back_ct_not_compared'] += 1
    for j in range(fi, len(ctx.sut) if compare else fi):
        a, b = ctx.sut[j], ctx.model[j]
        if ctx.cfg % 10 == 2:
            # the same for a throw of the generated continuation
            stop = False
            for k2, t2 in enumerate(a):
                if t2 == '!throw' and k2:
                    h2 = parse(a[k2 - 1])
                    if h2 and h2[3] == 'none' and st.level.get(behaviour_fsm(ctx, h2), 1) >= 2:
                        stop = True
            if stop:
                classes['completion_fault_in_submachine_back_ct_not_compared'] += 1
                break
        if a != b:
            kk = 0
            while kk < min(len(a), len(b)) and a[kk] == b[kk]:
                kk += 1
            what = 'faulted step' if j == fi else 'continuation step %d after the fault' % (j - fi)
            sig = None
            fail('C12', '%s differs from the model at token %d: %s vs %s' % (what, kk, a[kk] if kk < len(a) else None, b[kk] if kk < len(b) else None),
                 ctx, j, fault_op=cases.op_str(ctx.case[fi]), throw_host=toks[tpos - 1] if tpos else None, sig=sig)
    phase = {'g': 'guard', 'a': 'action', 'en': 'entry', 'ex': 'exit', 'xc': 'exception_caught'}.get(host[0] if host else None, '?')
    level = st.level.get(behaviour_fsm(ctx, host), 1) if host else 1
    classes['fault_in_' + phase] += 1
    classes['fault_at_level_%d' % level] += 1
    if host and host[3] == 'none':
        classes['fault_in_completion_transition'] += 1
    if phase != 'guard' and len(ctx.sut) > fi + 1:
        nontrivial.append((ctx.spec['id'], ids_before(ctx, fi), cases.op_str(ctx.case[fi]).split(';')[0].rsplit(':', 1)[0], k, phase))
    return dict(nontrivial=nontrivial, classes=classes)



# ---------------------------------------------------------------------------------------------- C13
def strip_inactive_ids(ctx, toks, drop_completion_guards=True):
    """ids{} tokens restricted to active machines (what an inactive submachine remembers is not part of the behaviour)"""
    st = ctx.static
    out = []
    for t in toks:
        if t.startswith('ids{'):
            ids = st.parse_ids(t)
            act = st.active_machines(ids)
            out.append('ids{' + ';'.join('%s=%s' % (m, ','.join(ids[m])) for m in act if m in ids) + ';}')
        elif t[0] == 'g' and t.endswith('/none') and drop_completion_guards:
            # documented difference: back re-evaluates the (frozen) guards of completion rows after every handled event,
            # backmp11 evaluates them once per entry; how often they are consulted is not common behaviour (C10 checks it)
            continue
        else:
            out.append(t)
    return out


def C13(ctx):
    """Back-end / compile-policy / dispatch-strategy / queue-container equivalence: the same case driven into every
    configuration that compiles the machine gives identical normalised traces (behaviours with order and arguments,
    active configuration by state name after every operation, handled/zero status).  Cases on which the two documented
    model dialects disagree lie outside the common feature subset and are discarded (counted)."""
    from . import build as B
    st = ctx.static
    classes = Counter()
    nontrivial = []
    runs = ctx.runs
    cfgs = sorted(runs)
    # operational definition of the common subset: both documented dialects predict the same trace
    mb, _ = model_ops(ctx.spec, ctx.case, 'back')
    mm, _ = model_ops(ctx.spec, ctx.case, 'mp11')
    if [strip_inactive_ids(ctx, x) for x in mb] != [strip_inactive_ids(ctx, x) for x in mm]:
        classes['outside_common_subset'] += 1
        return dict(nontrivial=[], classes=classes)
    norm = {c: [strip_inactive_ids(ctx, x) for x in runs[c]] for c in cfgs}
    ref = [strip_inactive_ids(ctx, x) for x in mb]
    base = cfgs[0]
    for i in range(len(ctx.case)):
        rows = {c: norm[c][i] if i < len(norm[c]) else None for c in cfgs}
        vals = list(rows.values())
        if any(v != vals[0] for v in vals):
            # attribute: configurations that deviate from the model (referee); if none matches the model, from the majority
            dev = [c for c in cfgs if rows[c] != ref[i]]
            if len(dev) == len(cfgs):
                cnt = Counter(tuple(v) if v is not None else None for v in vals)
                maj = cnt.most_common(1)[0][0]
                dev = [c for c in cfgs if (tuple(rows[c]) if rows[c] is not None else None) != maj]
            ok = [c for c in cfgs if c not in dev]
            a = rows[dev[0]]
            b = rows[ok[0]] if ok else ref[i]
            k = 0
            while a is not None and b is not None and k < min(len(a), len(b)) and a[k] == b[k]:
                k += 1
            fail('C13', 'configurations %s behave differently from %s in this operation (first difference at token %d: %s vs %s)'
                 % ([B.CONFIGS[c] for c in dev], [B.CONFIGS[c] for c in ok] or 'the model', k,
                    a[k] if a is not None and k < len(a) else None, b[k] if b is not None and k < len(b) else None), ctx, i,
                 deviating=[B.CONFIGS[c] for c in dev], deviating_trace=' '.join(a or []), other_trace=' '.join(b or []))
    classes['cases_compared'] += 1
    classes['configs_%d' % len(cfgs)] += 1
    # non-triviality
    feats = set()
    for i, toks in enumerate(norm[base]):
        regs = set()
        for t in toks:
            p = parse(t)
            if p and p[0] in ('g', 'a', 'en', 'ex'):
                o = tok_owner(ctx, p)
                if o:
                    if st.level.get(o[0], 1) >= 2:
                        feats.add('hierarchy')
                    rr = root_region_of(ctx, o)
                    if rr is not None:
                        regs.add(rr)
                if p[3] == 'none':
                    feats.add('completion')
            if t.startswith('!sub'):
                feats.add('nested_submission')
            if t == '!throw':
                feats.add('throw')
        if len(regs) >= 2:
            feats.add('regions')
        if ctx.case[i]['op'] in ('Q', 'X'):
            feats.add('queue')
    for f in feats:
        classes['feature_' + f] += 1
    if feats and len(cfgs) >= 3:
        nontrivial.append((ctx.spec['id'], cases.to_line(ctx.case)))
    return dict(nontrivial=nontrivial, classes=classes)



# ---------------------------------------------------------------------------------------------- C14 (front-end differential part)
FE_NAMES = {0: 'functor', 1: 'basic+row2', 2: 'puml', 3: 'puml(restyled)', 4: 'euml'}


def C14(ctx):
    """Front-end equivalence: the same machine written with functor rows, with basic rows (row/a_row/g_row/_row/irow
    family, part of them through the row2 family), and as a PlantUML string (two renderings: canonical, and with other
    arrow lengths / padding / order of the action and guard parts) gives the same trace on the same back-end, equal to
    the model (guard atoms log their calls, so precedence and short-circuit order are observable; action sequences log in
    written order; flag / entry / exit / terminate lines are observable through probes and the entry/exit log)."""
    from . import build as B
    st = ctx.static
    classes = Counter()
    runs = ctx.runs
    keys = sorted(runs)
    label = lambda k: '%s on %s' % (FE_NAMES[k // 10], B.CONFIGS[k % 10])
    ref = ctx.model
    nopb = lambda toks: [t for t in (toks or []) if not t.startswith('PB{')]
    pbs = lambda toks: [t for t in (toks or []) if t.startswith('PB{')]
    for i in range(len(ctx.case)):
        # flags / ids probed after the operation must be the same in every variant (flag lines affect only the state they name)
        p0 = pbs(runs[keys[0]][i] if i < len(runs[keys[0]]) else None)
        for k in keys[1:]:
            pk = pbs(runs[k][i] if i < len(runs[k]) else None)
            if pk != p0:
                fail('C14', 'front-end variant [%s] reports other flags / active states than [%s]: %s vs %s' % (label(k), label(keys[0]), pk, p0), ctx, i)
        for k in keys:
            row = nopb(runs[k][i] if i < len(runs[k]) else None)
            if row != nopb(ref[i]):
                others = [kk for kk in keys if nopb(runs[kk][i] if i < len(runs[kk]) else None) == nopb(ref[i])]
                a, b = row or [], nopb(ref[i])
                j = 0
                while j < min(len(a), len(b)) and a[j] == b[j]:
                    j += 1
                fail('C14', 'front-end variant [%s] behaves differently from %s (first difference at token %d: %s vs %s)'
                     % (label(k), [label(x) for x in others] or 'the model', j, a[j] if j < len(a) else None, b[j] if j < len(b) else None),
                     ctx, i, variant=label(k), variant_trace=' '.join(a), model_trace=' '.join(b))
    classes['cases_compared'] += 1
    classes['variants_%d' % len(keys)] += 1
    nontrivial = []
    # non-trivial: some step evaluated a composite guard (>= 2 atoms of one row) or ran an action sequence (>= 2 actions of one row)
    for i, toks in enumerate(ctx.sut):
        rows_g, rows_a = Counter(), Counter()
        for t in toks:
            p = parse(t)
            if p and p[0] == 'g':
                o = st.atom_owner.get(p[1])
                if o:
                    rows_g[o[2]] += 1
            if p and p[0] == 'a':
                o = st.action_owner.get(p[1])
                if o:
                    rows_a[o[2]] += 1
        if any(v >= 2 for v in rows_g.values()):
            classes['composite_guard_step'] += 1
        if any(v >= 2 for v in rows_a.values()):
            classes['action_sequence_step'] += 1
        if any(v >= 2 for v in rows_g.values()) or any(v >= 2 for v in rows_a.values()):
            nontrivial.append((ctx.spec['id'], ids_before(ctx, i), tuple(t.split('/')[0] for t in toks if t[0] in 'ga')))
    return dict(nontrivial=nontrivial, classes=classes)


# ---------------------------------------------------------------------------------------------- C15
def C15(ctx):
    """Copies / assignments / moves: (faithful) every object behaves, from the copy point on, exactly like a fresh machine
    that is given that object's whole history (the source's history up to the copy plus its own continuation) -
    configuration at every level, history memory, pending occurrences included; (independent) while one object is driven
    no behaviour of another object runs and the other objects' configuration does not change."""
    st = ctx.static
    classes = Counter()
    nontrivial = []
    ex = getattr(ctx, 'extra', None) or {}
    refs, hist = ex.get('refs', {}), ex.get('hist', {})
    last_ids = {}
    cur = 0
    copied_from_nontrivial = set()
    init_ids = None
    for i, c in enumerate(ctx.case):
        if i >= len(ctx.sut):
            break
        toks = ctx.sut[i]
        if any(t.startswith('ESCAPED') for t in toks):
            fail('C15', 'an exception escaped', ctx, i)
        # independence: behaviours are tagged with '@k' when they run on an object that is not the driven one
        for t in toks:
            p = parse(t)
            if (p and t.rsplit('@', 1)[-1].lstrip('-').isdigit() and '@' in t.split('/')[-1]):
                other = t.rsplit('@', 1)[-1]
                sig = None
                if dialect_of(ctx.cfg) == 'back' and c['op'] in ('P', 'X'):
                    sig = 'back_pending_events_of_a_copy_run_on_the_original'
                fail('C15', 'while object %d is driven, behaviour %s ran on object %s' % (cur, t, other), ctx, i, sig=sig)
        k = c['op']
        if k == 'W' and not any('skip' in t for t in toks):
            cur = c['obj']
            it = ids_of(toks)
            if cur in last_ids and it != last_ids[cur]:
                sig = 'back_pending_events_of_a_copy_run_on_the_original' if dialect_of(ctx.cfg) == 'back' else None
                fail('C15', 'configuration of object %d changed while other objects were driven: %s -> %s' % (cur, last_ids[cur], it), ctx, i, sig=sig)
        elif k in ('C', 'M'):
            new = [t for t in toks if t.startswith('[%s->' % k)]
            if new:
                n = int(new[0][4:-1])
                last_ids[n] = last_ids.get(cur)
                src_ids = last_ids.get(cur)
                pend = any(ctx.case[j]['op'] == 'Q' for j in hist.get(cur, []) if j < i)
                if src_ids and init_ids and src_ids != init_ids or pend:
                    copied_from_nontrivial.add(n)
                classes['copy_construct' if k == 'C' else 'move_construct'] += 1
        elif k == 'A' and not any('skip' in t for t in toks):
            last_ids[c['dst']] = last_ids.get(c['src'])
            classes['copy_assign'] += 1
            if last_ids.get(c['src']) != init_ids:
                copied_from_nontrivial.add(c['dst'])
        it = ids_of(toks)
        if it and k in ('S', 'T', 'P', 'Q', 'X'):
            last_ids[cur] = it
            if k == 'S' and init_ids is None:
                init_ids = it
    # faithful: compare every derived object's observed tokens with the fresh replay of its history
    for obj, (idxs, rtoks) in refs.items():
        for pos, idx in enumerate(idxs):
            if idx >= len(ctx.sut) or pos >= len(rtoks):
                break
            a = [t for t in ctx.sut[idx]]
            b = [t for t in rtoks[pos]]
            if a != b:
                j = 0
                while j < min(len(a), len(b)) and a[j] == b[j]:
                    j += 1
                sig = None
                if dialect_of(ctx.cfg) == 'back':
                    # RC5: occurrences that were pending (queued or deferred) when the copy was taken are bound to the original
                    copy_points = [i2 for i2, c2 in enumerate(ctx.case) if c2['op'] in ('C', 'A')]
                    inherited = set()
                    for i2 in idxs:
                        if copy_points and i2 < max(copy_points):
                            c2 = ctx.case[i2]
                            if 'payload' in c2:
                                inherited.add(c2['payload'])
                            for lst in (c2.get('scripts') or {}).values():
                                for sc in lst:
                                    if sc[0] == 'p':
                                        inherited.add(sc[2])
                    for t in (a[j] if j < len(a) else None, b[j] if j < len(b) else None):
                        pp_ = parse(t) if t else None
                        if pp_ and payload_of(pp_) in inherited:
                            sig = 'back_pending_events_of_a_copy_run_on_the_original'
                        # ... or the first visible effect is the pending count (the inherited occurrence left the copy's queue
                        # but ran on the original, or was stored on the original)
                        if t and t.startswith('pend=') and inherited:
                            sig = 'back_pending_events_of_a_copy_run_on_the_original'
                fail('C15', 'object %d (a copy) does not behave like a fresh machine given the same history: op %s, token %d: %s vs %s'
                     % (obj, cases.op_str(ctx.case[idx]), j, a[j] if j < len(a) else None, b[j] if j < len(b) else None), ctx, idx,
                     copy_trace=' '.join(a), fresh_trace=' '.join(b), sig=sig)
        own = [idx for idx in idxs if idx > min([i for i, c in enumerate(ctx.case) if c['op'] in ('C', 'M', 'A')] or [0])]
        if obj in copied_from_nontrivial and own:
            nontrivial.append((ctx.spec['id'], obj, cases.to_line([ctx.case[i] for i in idxs])[-200:]))
            classes['nontrivial_copies_with_continuation'] += 1
    classes['cases'] += 1
    return dict(nontrivial=nontrivial, classes=classes)


# ---------------------------------------------------------------------------------------------- C16
def split_pb(t):
    """probe token -> (ids/other parts, {cnt/data key: int})"""
    keep, data = [], {}
    for p in t[3:-1].split(';'):
        if not p:
            continue
        k, _, v = p.partition('=')
        if k.startswith('cnt:') or k.startswith('data:'):
            data[k] = int(v)
        else:
            keep.append(p)
    return ';'.join(keep), data


def C16(ctx):
    """Serialization round trip (back / back11): a machine loaded from a text or binary archive of a quiescent machine has
    the same active states at every level, the same history memory (observed through later re-entries) and the opted-in
    state / front-end data of the saved one, leaves non-opted data at its default, and from then on produces token for
    token the trace of a fresh machine replaying the saved machine's whole history plus the continuation."""
    st = ctx.static
    classes = Counter()
    nontrivial = []
    ex = getattr(ctx, 'extra', None) or {}
    refs, hist = ex.get('refs', {}), ex.get('hist', {})
    opted = {}
    for s, (nm, ri) in st.state_owner.items():
        sd = st.machine[nm]['states'][s]
        opted['cnt:' + s] = bool(sd.get('serialize')) if sd['kind'] != 'sub' else None
    for nm, m in st.machine.items():
        opted['data:' + nm] = bool(m.get('serialize'))
    exp = {0: Counter()}
    cur = 0
    init_ids = None
    last_ids = {}
    for i, c in enumerate(ctx.case):
        if i >= len(ctx.sut):
            break
        toks = ctx.sut[i]
        k = c['op']
        if k == 'W' and not any('skip' in t for t in toks):
            cur = c['obj']
        for t in toks:
            p = parse(t)
            if p and p[0] == 'en':
                key = ('data:' + p[1]) if p[1] in st.machine else ('cnt:' + p[1])
                exp.setdefault(cur, Counter())[key] += 1
            if t.startswith('[V') and '->' in t:
                n = int(t.split('->')[1].rstrip(']'))
                exp[n] = Counter({key: v for key, v in exp.get(cur, Counter()).items() if opted.get(key)})
                last_ids[n] = last_ids.get(cur)
                classes['save_load_' + ('text' if c['fmt'] == 't' else 'binary')] += 1
                ids = st.parse_ids(last_ids.get(cur) or 'ids{}')
                inactive_hist = [nm for nm, m in st.machine.items() if m.get('history', 'none') != 'none' and nm not in st.active_machines(ids)
                                 and ids.get(nm) and ids[nm] != [reg[0] for reg in m['regions']]]
                if (last_ids.get(cur) != init_ids) or inactive_hist:
                    nontrivial.append((ctx.spec['id'], last_ids.get(cur), c['fmt']))
                    if inactive_hist:
                        classes['saved_inactive_submachine_with_memory'] += 1
            if t.startswith('PB{'):
                _, data = split_pb(t)
                for key, v in data.items():
                    want = exp.get(cur, Counter()).get(key, 0)
                    if v != want:
                        what = 'opted-in' if opted.get(key) else 'not serialised'
                        fail('C16', 'object %d: %s is %d, expected %d (%s data)' % (cur, key, v, want, what), ctx, i)
        it = ids_of(toks)
        if it and k in ('S', 'P'):
            last_ids[cur] = it
            if k == 'S' and init_ids is None:
                init_ids = it
        if k == 'W' and it:
            if cur in last_ids and last_ids[cur] is not None and st.parse_ids(it) != st.parse_ids(last_ids[cur]):
                a, b = st.parse_ids(it), st.parse_ids(last_ids[cur])
                act = st.active_machines(b)
                if any(a.get(m) != b.get(m) for m in act):
                    fail('C16', 'loaded object %d has active states %s, the saved machine had %s' % (cur, it, last_ids[cur]), ctx, i)
    strip = lambda toks: [split_pb(t)[0] if t.startswith('PB{') else t for t in toks]
    for obj, (idxs, rtoks) in refs.items():
        for pos, idx in enumerate(idxs):
            if idx >= len(ctx.sut) or pos >= len(rtoks):
                break
            a, b = strip(ctx.sut[idx]), strip(rtoks[pos])
            if a != b:
                j = 0
                while j < min(len(a), len(b)) and a[j] == b[j]:
                    j += 1
                fail('C16', 'loaded object %d does not behave like the saved machine would: op %s, token %d: %s vs %s'
                     % (obj, cases.op_str(ctx.case[idx]), j, a[j] if j < len(a) else None, b[j] if j < len(b) else None), ctx, idx,
                     loaded_trace=' '.join(a), fresh_trace=' '.join(b))
    classes['cases'] += 1
    return dict(nontrivial=nontrivial, classes=classes)



# ---------------------------------------------------------------------------------------------- C18
def C18(ctx):
    """Event matching: a row is a candidate iff its trigger is the event's type, a public base of it, or a Kleene type;
    candidates of the three kinds compete by table position only; behaviours of a Kleene row receive an any holding the
    original event (dynamic type and value), behaviours of a base-class row receive the event through the base; payloads
    (including a checksummed body of 1-200 bytes) arrive unmodified, also after queueing. Exact prediction by the model."""
    st = ctx.static
    spec = ctx.spec
    classes = Counter()
    nontrivial = []
    kleene = {e['name'] for e in spec['events'] if e.get('kleene')}
    in_sync = True
    for i, c in enumerate(ctx.case):
        if i >= len(ctx.sut):
            break
        toks = ctx.sut[i]
        for t in toks:
            if 'CORRUPT' in t:
                fail('C18', 'payload body arrived modified: %s' % t, ctx, i)
        if in_sync:
            a = [t for t in toks if not t.startswith('ids{')]
            b = [t for t in ctx.model[i] if not t.startswith('ids{')]
            if a != b:
                j = 0
                while j < min(len(a), len(b)) and a[j] == b[j]:
                    j += 1
                fail('C18', 'candidate selection / event seen by the behaviours differs from the model at token %d: %s vs %s'
                     % (j, a[j] if j < len(a) else None, b[j] if j < len(b) else None), ctx, i, ids_before=ids_before(ctx, i))
        # non-triviality: the rows consulted in this op use >= 2 trigger kinds relative to the events dispatched
        kinds = set()
        for t in toks:
            p = parse(t)
            if p and p[0] in ('g', 'a'):
                o = st.atom_owner.get(p[1]) if p[0] == 'g' else st.action_owner.get(p[1])
                if not o:
                    continue
                row = [r for (nm, ri, kd, r, key) in st.rows if key == o[2]]
                if not row or row[0]['ev'] is None:
                    continue
                trig = row[0]['ev']
                d = p[3]
                if trig in kleene:
                    kinds.add('kleene')
                elif d.startswith(trig + '#'):
                    # exact or base: base if the top-level event of this op has another (derived) type
                    evn = spec['events'][c['ev']]['name'] if c['op'] in ('P', 'Q') and 'ev' in c else None
                    kinds.add('base' if (evn and evn != trig and trig in S.event_bases(spec, evn)) else 'exact')
        if len(kinds) >= 2:
            nontrivial.append((spec['id'], ids_before(ctx, i), c.get('ev'), tuple(sorted(kinds)), tuple(t.split('/')[0] for t in toks if t[0] in 'ga')))
            classes['kinds_' + '+'.join(sorted(kinds))] += 1
        if in_sync and not sync_active(ctx, i, Counter()):
            in_sync = False
            classes['diverged_elsewhere'] += 1
        classes['steps'] += 1
    return dict(nontrivial=nontrivial, classes=classes)
