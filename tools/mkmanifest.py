#!/usr/bin/env python3
import sys, json, os
sys.path.insert(0, '/verif')
from msmv import plans
props = [json.loads(l) for l in open('/verif/properties.jsonl')]
checks = []
na = []
for p in props:
    pid = p['id']
    if pid not in plans.PLANS:
        na.append(dict(property_id=pid, reason=plans.NOT_YET.get(pid, 'check not built yet in this revision of /verif (planned; see DESIGN.md section 3)')))
        continue
    pl = plans.PLANS[pid]
    checks.append(dict(
        property_id=pid,
        quick_cmd='python3-vt verif.py check %s --tier quick' % pid,
        thorough_cmd='python3-vt verif.py check %s --tier thorough' % pid,
        evidence_file='/verif/evidence/%s.json' % pid,
        replay_cmd_template='python3-vt verif.py replay {path}',
        engine=pl.get('engine', 'msmv'),
        level_claimed=dict(category=pl.get('level', 'exploration'), text=pl.get('level_text', 'Generated-input search against an explicit oracle: holds on everything explored; explored space measured in the evidence file.'), design_ref=pl.get('design_ref', 'DESIGN.md section 3 (%s)' % pid)),
        level_note=pl.get('level_note', 'Trusts: the reference model / invariant oracle in msmv/, the instrumentation harness/rt.hpp, the compiler. No absence claim.'),
        technique=pl.get('technique', 'property-based testing (Hypothesis) over generated machines and event histories'),
    ))
man = dict(
    version=1,
    setup_cmd='python3-vt verif.py setup',
    hooks=dict(guard='BOOST_MSM_VERIF', enable='no hooks are needed: all observation points are user-level behaviours of generated machines (see DESIGN.md 2.3)',
               baseline_off_cmd='cmake --build /repo/_build --target tests -j16 && ctest --test-dir /repo/_build -j8 --timeout 900',
               source_commits=[], add_only=True),
    engines=[dict(name='msmv', path='/verif/msmv', serves_properties=[c['property_id'] for c in checks],
                  kind_free_text='seeded machine-spec generator + C++ emitter + Hypothesis case generation + reference model / invariant oracles; SUT binaries rebuilt from /repo/include (content-addressed cache)')],
    checks=checks,
    notes='See DESIGN.md. Fixes to boostorg/msm are separate "fix:" commits in /repo, listed in KNOWN_FINDINGS.txt.',
    not_applicable=na,
)
json.dump(man, open('/verif/MANIFEST.json', 'w'), indent=1)
print('checks', len(checks), 'not_applicable', len(na))
