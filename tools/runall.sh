#!/bin/sh
# runs every registered quick check once; prints one line per check
cd /verif
for p in $(python3 -c "import json;print(' '.join(c['property_id'] for c in json.load(open('MANIFEST.json'))['checks']))"); do
  python3-vt verif.py check $p --tier ${1:-quick} > /var/tmp/runall_$p.log 2>&1; rc=$?
  echo "$p rc=$rc $(tail -1 /var/tmp/runall_$p.log | cut -c1-200)"
done
