#!/bin/sh
# runs every registered check once (tier = $1, default quick); prints one line per check. Works from any copy of /verif.
V=$(cd "$(dirname "$0")/.." && pwd)
cd $V
TAG=${RUNALL_TAG:-runall}
for p in $(python3 -c "import json;print(' '.join(c['property_id'] for c in json.load(open('MANIFEST.json'))['checks']))"); do
  python3-vt verif.py check $p --tier ${1:-quick} > /var/tmp/${TAG}_$p.log 2>&1; rc=$?
  echo "$p rc=$rc violations=$(grep -c '^VIOLATION' /var/tmp/${TAG}_$p.log) $(grep ' quick: \| thorough: ' /var/tmp/${TAG}_$p.log | tail -1 | cut -c1-200)"
done
