#!/bin/bash
# try_seed.sh <seed id> <check> [<check>...] : applies seeded/<id>/patch.diff to /repo, runs the quick checks, restores /repo.
# SEED_REPO=<scratch worktree of /repo> tries the seed there instead (VERIF_REPO is pointed at it).
# Works from whichever copy of /verif the script lives in (so it can run from a `vp run` snapshot while /verif is edited).
ID=$1; shift
V=$(cd "$(dirname "$0")/.." && pwd)
cd $V
R=${SEED_REPO:-/repo}
export VERIF_REPO=$R
git -C $R diff --quiet || { echo "$R has uncommitted changes"; exit 2; }
git -C $R apply $V/seeded/$ID/patch.diff || { echo "seed=$ID patch does not apply"; exit 2; }
trap 'git -C $R checkout -- .' EXIT
export VERIF_EVIDENCE_DIR=/var/tmp/ev_seed VERIF_REPLAYS_NEW=/var/tmp/replays_seed_$ID
for c in "$@"; do
  python3-vt verif.py check $c --tier ${TIER:-quick} > /var/tmp/seed_${ID}_$c.log 2>&1; rc=$?
  nv=$(grep -c "^VIOLATION" /var/tmp/seed_${ID}_$c.log)
  echo "seed=$ID check=$c rc=$rc violations=$nv :: $(grep -A1 '^VIOLATION' /var/tmp/seed_${ID}_$c.log | sed -n 2p | cut -c1-220)"
done
