#!/usr/bin/env python3
"""mkwitness.py <prop> <out.json> <cfg> <spec-source: replay.json | profile:seed:idx> "<case line>" [sig]
builds a replay file and prints the verdict of the property's oracle on the current tree."""
import sys, json
sys.path.insert(0, '/verif')
from msmv import cases, runner, plans, specgen, build
prop, out, cfg, src, line = sys.argv[1:6]
sig = sys.argv[6] if len(sys.argv) > 6 else None
cfg = int(cfg) if cfg.isdigit() else build.CFG_BY_NAME[cfg]
if src.endswith('.json'):
    j = json.load(open(src)); spec = j.get('spec', j)
else:
    prof, seed, idx = src.split(':'); spec = specgen.gen_spec(prof, int(seed), int(idx))
case = cases.parse_line(line)
msgs, s = runner.replay_failure(prop, plans.PLANS[prop], spec, cfg, case, times=1)
print('verdict:', msgs[0], 'sig:', s)
json.dump(dict(property=prop, spec=spec, cfg=cfg, cfg_name=build.CONFIGS[cfg], case=case, msg=msgs[0], sig=sig or s, line=line), open(out, 'w'), indent=1)
