#!/bin/bash
# confirm_seed.sh <worktree> <seed dir inside worktree> <seed id> <property>
# confirms: demo passes on the original tree, fails with the patch; the pinned test suite builds and passes with the patch.
# On success copies patch.diff, demo.cpp, notes.md into /verif/seeded/<id>/ with meta.json.
WT=$1; SD=$2; ID=$3; PROP=$4
set -u
cd $WT || exit 2
git checkout -q -- include
CC=$(head -5 $SD/demo.cpp | grep -o "g++ .*" | head -1)
[ -z "$CC" ] && CC="g++ -std=gnu++17 -I$WT/include demo.cpp -o demo"
STD=$(echo "$CC" | grep -o "\-std=[a-z+0-9]*" | head -1); [ -z "$STD" ] && STD=-std=gnu++17
EXTRA=$(echo "$CC" | grep -o "\-l[a-z_]*" | tr '\n' ' ')
build_demo() { g++ $STD -I$WT/include $SD/demo.cpp -o /var/tmp/demo_$ID $EXTRA 2>/var/tmp/demo_$ID.err; }
build_demo || { echo "demo does not compile on original"; exit 3; }
/var/tmp/demo_$ID > /var/tmp/demo_$ID.out0 2>&1; RC0=$?
git apply $SD/patch.diff || { echo "patch does not apply"; exit 3; }
build_demo || { echo "demo does not compile with patch"; git checkout -q -- include; exit 3; }
timeout 120 /var/tmp/demo_$ID > /var/tmp/demo_$ID.out1 2>&1; RC1=$?
echo "demo rc original=$RC0 patched=$RC1"
if [ $RC0 -ne 0 ] || [ $RC1 -eq 0 ]; then echo "demo does not discriminate"; git checkout -q -- include; exit 4; fi
[ -d $WT/_build ] || cmake -S $WT -B $WT/_build -G Ninja -DCMAKE_BUILD_TYPE=Release -DBUILD_TESTING=ON -DCMAKE_CXX_FLAGS=-Wno-error > /var/tmp/cfg_$ID.log 2>&1
cmake --build $WT/_build --target tests -j${JOBS:-10} > /var/tmp/tb_$ID.log 2>&1; BRC=$?
ctest --test-dir $WT/_build > /var/tmp/ct_$ID.log 2>&1; TRC=$?
SUMMARY=$(grep "tests passed" /var/tmp/ct_$ID.log)
echo "tests build rc=$BRC ctest rc=$TRC: $SUMMARY"
git checkout -q -- include
if [ $BRC -ne 0 ] || [ $TRC -ne 0 ]; then echo "suite does not pass with patch"; exit 5; fi
mkdir -p /verif/seeded/$ID
cp $SD/patch.diff $SD/demo.cpp /verif/seeded/$ID/
[ -f $SD/notes.md ] && cp $SD/notes.md /verif/seeded/$ID/
python3 - <<PY
import json
json.dump(dict(id="$ID", property="$PROP", source="independent sub-agent given only the property text and a scratch worktree",
  base_commit="$(git -C $WT rev-parse --short HEAD)",
  confirmed=dict(demo_rc_original=$RC0, demo_rc_patched=$RC1, suite_with_patch="$SUMMARY", commands=["git apply patch.diff", "g++ $STD -I<wt>/include demo.cpp", "cmake --build <wt>/_build --target tests && ctest --test-dir <wt>/_build"]),
  needs_to_manifest=open("$SD/notes.md").read()[:1500] if __import__('os').path.exists("$SD/notes.md") else "",
  detected_by=None), open("/verif/seeded/$ID/meta.json","w"), indent=1)
PY
echo "kept /verif/seeded/$ID"
