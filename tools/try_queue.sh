#!/bin/bash
# try_queue.sh "<seed id> <check> [<check>...]" ... : tries several seeds one after the other, appends to /var/tmp/try_queue.log
V=$(cd "$(dirname "$0")/.." && pwd)
for spec in "$@"; do
  $V/tools/try_seed.sh $spec >> /var/tmp/try_queue.log 2>&1
done
echo "queue done: $*" >> /var/tmp/try_queue.log
