#!/usr/bin/env python3
"""dev tool: model-vs-SUT on random cases.  mv.py <profile> <seed> <index> [cfgs] [ncases]"""
import sys, random, json
sys.path.insert(0, '/verif')
from msmv import specgen, emit, build, sut, cases, model, spec as S

prof, seed, idx = sys.argv[1], int(sys.argv[2]), int(sys.argv[3])
cfgs = [int(x) for x in (sys.argv[4] if len(sys.argv) > 4 else '1,4,5').split(',')]
n = int(sys.argv[5]) if len(sys.argv) > 5 else 300
sp = specgen.gen_spec(prof, seed, idx)
cpp = emit.emit_cpp(sp)
res = build.build_many([(cpp, c, 'plain', (), ()) for c in cfgs])
rnd = random.Random(5)
nev = len([e for e in sp['events'] if not e.get('kleene')])
for c, (b, log) in zip(cfgs, res):
    if not b:
        print('cfg', c, 'BUILD FAILED'); print(log[-3000:]); continue
    s = sut.Sut(b)
    bad = 0
    for i in range(n):
        case = [{'op': 'S', 'val': rnd.getrandbits(60)}]
        for _ in range(rnd.randint(1, 12)):
            mode = rnd.random()
            val = rnd.getrandbits(60) if mode < .6 else ((1 << 60) - 1 if mode < .8 else 0)
            case.append({'op': 'P', 'ev': rnd.randrange(nev), 'payload': rnd.randrange(100), 'val': val})
        if rnd.random() < .3: case.append({'op': 'T'})
        tr = cases.normalise(s.run('R ' + cases.to_line(case)), s.idmap)[1:]
        md = cases.run_model(sp, case, 'back' if c <= 4 else 'mp11')
        if tr != md.trace:
            bad += 1
            if bad <= 2:
                # first divergence
                k = 0
                while k < min(len(tr), len(md.trace)) and tr[k] == md.trace[k]: k += 1
                print('cfg', c, 'DIVERGE at', k)
                print('  case:', cases.to_line(case))
                print('  sut  :', ' '.join(tr[max(0,k-12):k+8]))
                print('  model:', ' '.join(md.trace[max(0,k-12):k+8]))
    print('cfg', c, build.CONFIGS[c], 'cases', n, 'diverged', bad)
    s.close()
json.dump(sp, open('/var/tmp/last_spec.json', 'w'), indent=1)
