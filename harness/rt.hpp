// Runtime support for generated MSM machines (SUT side).
// No oracle lives here: this file only records what the library does and
// executes the case (operations, guard valuations, callback scripts) it is given.
#pragma once
#include <string>
#include <vector>
#include <cstdio>
#include <cstdlib>
#include <cstring>
#include <stdexcept>
#include <iostream>
#include <sstream>
#include <memory>
#include <typeinfo>
#include <any>

#ifndef CFG
#error "CFG must be defined: 1 back, 2 back+favor_compile_time, 3 back+circular, 4 back11, 5 backmp11, 6 backmp11 function_pointer_array, 7 backmp11 favor_compile_time"
#endif

#if CFG <= 3
#include <boost/msm/back/state_machine.hpp>
#if CFG == 2
#include <boost/msm/back/favor_compile_time.hpp>
#endif
#if CFG == 3
#include <boost/msm/back/queue_container_circular.hpp>
#endif
#elif CFG == 4
#include <boost/msm/back11/state_machine.hpp>
#else
#include <boost/msm/backmp11/state_machine.hpp>
#if CFG == 7
#include <boost/msm/backmp11/favor_compile_time.hpp>
#endif
#endif
#include <boost/msm/front/state_machine_def.hpp>
#include <boost/msm/front/functor_row.hpp>
#include <boost/msm/front/operator.hpp>
#include <boost/msm/front/internal_row.hpp>
#include <boost/msm/front/row2.hpp>
#include <boost/msm/front/history_policies.hpp>
#include <boost/msm/active_state_switching_policies.hpp>
#include <boost/any.hpp>
#include <boost/fusion/include/mpl.hpp>   // interrupt_state<mpl::vector<...>> needs mpl sequences adapted to fusion

#ifdef VERIF_VISITABLE
#include <boost/msm/back/args.hpp>
#include <boost/ref.hpp>
#endif

namespace rt {

namespace msm = boost::msm;

#ifdef VERIF_VISITABLE
// visitable polymorphic base for all generated states (visit_current_states / get_state_by_id of back, visitors of backmp11)
struct Vis { std::string names; };
struct VBase {
    typedef boost::msm::back::args<void, Vis&> accept_sig;
    virtual ~VBase() {}
    virtual const char* rt_name() const { return "?"; }
    void accept(Vis& v) const { v.names += rt_name(); v.names += ","; }
};
#endif

#if CFG >= 5
struct cfg_fpa_policy : msm::backmp11::favor_runtime_speed {
    using dispatch_strategy = msm::backmp11::dispatch_strategy::function_pointer_array;
};
struct cfg_plain : msm::backmp11::state_machine_config {};
struct cfg_fpa : msm::backmp11::state_machine_config { using compile_policy = cfg_fpa_policy; };
#if CFG == 7
struct cfg_ct : msm::backmp11::state_machine_config { using compile_policy = msm::backmp11::favor_compile_time; };
#endif
template <class Front, class Config>
class Mp11 : public msm::backmp11::state_machine<Front, Config, Mp11<Front, Config>> {
    using base = msm::backmp11::state_machine<Front, Config, Mp11<Front, Config>>;
  public:
    using base::base;
    size_t pending() const { return this->get_event_pool().events.size(); }
};
#endif

#if CFG == 1
#define RT_BACK(Front, Hist) ::boost::msm::back::state_machine<Front, Hist>
#elif CFG == 2
#define RT_BACK(Front, Hist) ::boost::msm::back::state_machine<Front, Hist, ::boost::msm::back::favor_compile_time>
#elif CFG == 3
#define RT_BACK(Front, Hist) ::boost::msm::back::state_machine<Front, Hist, ::boost::msm::back::queue_container_circular>
#elif CFG == 4
#define RT_BACK(Front, Hist) ::boost::msm::back11::state_machine<Front, void, Hist>
#define RT_BACK_UP(Front, Hist, Upper) ::boost::msm::back11::state_machine<Front, Upper, Hist>
#elif CFG == 5
#define RT_BACK(Front, Hist) ::rt::Mp11<Front, ::rt::cfg_plain>
#elif CFG == 6
#define RT_BACK(Front, Hist) ::rt::Mp11<Front, ::rt::cfg_fpa>
#elif CFG == 7
#define RT_BACK(Front, Hist) ::rt::Mp11<Front, ::rt::cfg_ct>
#endif
#ifndef RT_BACK_UP
// (not defined through RT_BACK: an expanded history argument may contain commas)
#if CFG == 1
#define RT_BACK_UP(Front, Hist, Upper) ::boost::msm::back::state_machine<Front, Hist>
#elif CFG == 2
#define RT_BACK_UP(Front, Hist, Upper) ::boost::msm::back::state_machine<Front, Hist, ::boost::msm::back::favor_compile_time>
#elif CFG == 3
#define RT_BACK_UP(Front, Hist, Upper) ::boost::msm::back::state_machine<Front, Hist, ::boost::msm::back::queue_container_circular>
#elif CFG == 5
#define RT_BACK_UP(Front, Hist, Upper) ::rt::Mp11<Front, ::rt::cfg_plain>
#elif CFG == 6
#define RT_BACK_UP(Front, Hist, Upper) ::rt::Mp11<Front, ::rt::cfg_fpa>
#elif CFG == 7
#define RT_BACK_UP(Front, Hist, Upper) ::rt::Mp11<Front, ::rt::cfg_ct>
#endif
#endif

#if CFG <= 3
namespace backns = ::boost::msm::back;
#elif CFG == 4
namespace backns = ::boost::msm::back11;
#endif

// ------------------------------------------------------------------ case state
struct Script {
    int at;            // callback ordinal within the top-level operation
    char what;         // 't' throw, 'p' submit, 'b' probe, 'd' defer_event
    int ev = 0;        // event index for 'p'
    int payload = 0;
    char how = 'f';    // f: fsm.process_event  r: root.process_event  q: fsm.enqueue_event  Q: root.enqueue_event
};

struct Ctx {
    std::string out;                 // trace of the current case
    unsigned long long val = 0;      // guard valuation of the current top-level operation
    unsigned long long frozen_[8] = {0, 0, 0, 0, 0, 0, 0, 0};   // frozen values of completion guards, per machine object
    unsigned long long& frozen_ref() { return frozen_[cur_obj & 7]; }
    int ordinal = 0;                 // callback ordinal within the current top-level operation
    std::vector<Script> scripts;     // scripts of the current top-level operation
    bool in_op = false;
    int cur_obj = 0;                 // index of the object currently driven
    struct Range { const char* lo; const char* hi; int idx; };
    std::vector<Range> objs;         // live top-level machine objects
    int fired = 0;                   // scripts that actually fired in this case
};
inline Ctx& C() { static Ctx c; return c; }

inline void tok(const std::string& s) { auto& o = C().out; if (!o.empty()) o += ' '; o += s; }

// which top-level object owns this address? (-1 unknown)
inline int owner_of(const void* p) {
    const char* c = static_cast<const char*>(p);
    for (auto& r : C().objs) if (c >= r.lo && c < r.hi) return r.idx;
    return -1;
}
inline std::string owner_tag(const void* p) {
    int o = owner_of(p);
    if (o == C().cur_obj) return "";
    return "@" + std::to_string(o);
}

// back11 only: a contained machine declared with its enclosing machine as UpperFsm offers get_upper(); the machine it
// names must live in the same top-level object as the contained machine itself (copies share nothing)
template <class Fsm> auto link_check_impl(Fsm& fsm, int) -> decltype(fsm.get_upper(), void()) {
    using U = std::remove_pointer_t<decltype(fsm.get_upper())>;
    if constexpr (!std::is_void_v<U>) {
        const void* u = fsm.get_upper();
        int me = owner_of(&fsm);
        if (u && me >= 0 && owner_of(u) != me) tok("!UPPER@" + std::to_string(owner_of(u)));
    }
}
template <class Fsm> void link_check_impl(Fsm&, long) {}
template <class Fsm> void link_check(Fsm& fsm) { link_check_impl(fsm, 0); }

// leading base of some generated derived events: their event base class then sits at a non-zero offset
struct EvPad { long pad_a = 0x1111111111111111L, pad_b = 0x2222222222222222L; };

// event description: generated code provides overloads rt_describe(const E&) -> std::string
struct AnyTag {};
template <class T> std::string rt_describe(const T&) { return std::string("?") ; }
inline std::string rt_describe(const msm::front::none&) { return "none"; }
// type-erased events (Kleene triggers; backmp11 favor_compile_time hands std::any to no_transition/exception_caught):
// the generated TU knows the event types and looks inside
std::string describe_std_any(const std::any& a);
std::string describe_boost_any(const boost::any& a);
inline std::string rt_describe(const std::any& a) { return "any(" + describe_std_any(a) + ")"; }
inline std::string rt_describe(const boost::any& a) { return "any(" + describe_boost_any(a) + ")"; }
#if CFG <= 3
// explicit / fork / entry-point entries hand the submachine's own on_entry a wrapper around the original event
template <class S, class E> std::string rt_describe(const msm::back::direct_entry_event<S, E>& w) { return rt_describe(w.m_event); }
#elif CFG == 4
template <class S, class E> std::string rt_describe(const msm::back11::direct_entry_event<S, E>& w) { return rt_describe(w.m_event); }
#endif

// ------------------------------------------------------------------ freeze map for completion guards
// generated code fills: for each state index, the mask of completion-guard atoms frozen at its entry
struct FreezeTable { std::vector<unsigned long long> mask_by_state; };
inline FreezeTable& freeze() { static FreezeTable f; return f; }
inline unsigned long long& frozen_atoms() { static unsigned long long m = 0; return m; }  // set of atoms that are frozen-kind

// ------------------------------------------------------------------ hooks
// The generated translation unit defines these two (they need the full set of event types):
template <class Fsm> void run_submit(Fsm& fsm, const Script& s);
void root_submit(const Script& s);
template <class Fsm> void run_probe(Fsm& fsm);

template <class Fsm>
void after_callback(Fsm& fsm, bool may_throw = true) {
    Ctx& c = C();
    int k = c.ordinal++;
    if (c.scripts.empty()) return;
    // copy: scripts may be re-entered through nested processing
    for (size_t i = 0; i < c.scripts.size(); ++i) {
        if (c.scripts[i].at != k) continue;
        Script s = c.scripts[i];
        c.fired++;
        switch (s.what) {
        case 't':
            if (!may_throw) { tok("!nothrow"); break; }   // exception_caught itself never throws (outside every property)
            tok("!throw"); throw std::runtime_error("scripted");
        case 'p':
            tok(std::string("!sub") + s.how + ":" + std::to_string(s.ev) + "#" + std::to_string(s.payload));
            if (s.how == 'r' || s.how == 'Q') root_submit(s); else run_submit(fsm, s);
            tok("!ret");
            break;
        case 'b': run_probe(fsm); break;
        default: break;
        }
    }
}

template <class Ev, class Fsm>
bool guard(int n, const Ev& e, Fsm& fsm) {
    Ctx& c = C();
    bool v;
    link_check(fsm);
    if ((frozen_atoms() >> n) & 1ULL) v = (c.frozen_ref() >> n) & 1ULL; else v = (c.val >> n) & 1ULL;
    tok("g" + std::to_string(n) + "=" + (v ? "1" : "0") + "/" + rt_describe(e) + owner_tag(&fsm));
    // guards of completion rows are no script positions: how often they are consulted differs by documented design
    // between back (after every handled event) and backmp11 (once per entry), and ordinals must mean the same everywhere
    if (!std::is_same<Ev, msm::front::none>::value) after_callback(fsm);
    return v;
}
// deferral predicate (backmp11 is_event_deferred): logged like a guard, but no script position (it is const and may be
// asked any number of times)
template <class Ev, class Fsm>
bool cond(int n, const Ev& e, const Fsm& fsm) {
    bool v = (C().val >> n) & 1ULL;
    tok("g" + std::to_string(n) + "=" + (v ? "1" : "0") + "/" + rt_describe(e) + owner_tag(&fsm));
    return v;
}
template <class Ev, class Fsm>
void action(int n, const Ev& e, Fsm& fsm) {
    link_check(fsm);
    tok("a" + std::to_string(n) + "/" + rt_describe(e) + owner_tag(&fsm));
    after_callback(fsm);
}
template <class Ev, class Fsm>
void entry(int sidx, const char* name, const void* self, const Ev& e, Fsm& fsm) {
    Ctx& c = C();
    // freeze completion guards whose source is this state
    auto& ft = freeze().mask_by_state;
    if (sidx >= 0 && sidx < (int)ft.size() && ft[sidx]) {
        c.frozen_ref() = (c.frozen_ref() & ~ft[sidx]) | (c.val & ft[sidx]);
    }
    link_check(fsm);
    tok(std::string("en:") + name + "/" + rt_describe(e) + owner_tag(self));
    after_callback(fsm);
}
template <class Ev, class Fsm>
void exit_(int sidx, const char* name, const void* self, const Ev& e, Fsm& fsm) {
    (void)sidx;
    link_check(fsm);
    tok(std::string("ex:") + name + "/" + rt_describe(e) + owner_tag(self));
    after_callback(fsm);
}
template <class Ev, class Fsm>
void no_transition(const char* mname, const Ev& e, Fsm& fsm, int state) {
    tok(std::string("nt:") + mname + ":" + std::to_string(state) + "/" + rt_describe(e) + owner_tag(&fsm));
    // no script position: the properties do not list no_transition as a submission point
}
template <class Ev, class Fsm>
void exception_caught(const char* mname, const Ev& e, Fsm& fsm, std::exception& x) {
    tok(std::string("xc:") + mname + "/" + rt_describe(e) + owner_tag(&fsm));
    (void)x;
    after_callback(fsm, false);
}

// ------------------------------------------------------------------ API adapters
template <class M> void api_start(M& m) { m.start(); }
template <class M> void api_stop(M& m) { m.stop(); }
#if CFG >= 5
template <class M> size_t api_msgq(const M& m) { return 1; }
template <class M> long api_exec_all(M& m) { return (long)m.process_event_pool(); }
template <class M> long api_exec_one(M& m) { return (long)m.process_event_pool(1); }
template <class M> int api_id(const M& m, int r) { return (int)m.get_active_state_ids()[r]; }
template <class M> constexpr int api_nregions() { return (int)std::tuple_size<std::decay_t<decltype(std::declval<const M&>().get_active_state_ids())>>::value; }
template <class R> int api_code(const R& r) { return (int)r; }
#else
template <class M> size_t api_msgq(const M& m) { return m.get_message_queue_size(); }
template <class M> long api_exec_all(M& m) { m.execute_queued_events(); return -1; }
template <class M> long api_exec_one(M& m) { m.execute_single_queued_event(); return -1; }
template <class M> int api_id(const M& m, int r) { return (int)m.current_state()[r]; }
template <class M> constexpr int api_nregions() { return (int)M::nr_regions::value; }
template <class R> int api_code(const R& r) { return (int)r; }
#endif

// parse helpers ---------------------------------------------------------------
inline std::vector<std::string> split(const std::string& s, char d) {
    std::vector<std::string> v; std::string cur;
    for (char ch : s) { if (ch == d) { v.push_back(cur); cur.clear(); } else cur += ch; }
    v.push_back(cur); return v;
}

} // namespace rt
