// libFuzzer target for the lifetime of events stored by the library (property C20, part b): message queue, deferred
// queue, backmp11 event pool (inline and heap storage), through real machines. Build with -DCFG=1|3|4|5|7.
// Event types differ in size, alignment and copy/move/destructor traits; non-trivial ones are tracked by an instance
// registry (constructed exactly once, destroyed exactly once, never used when dead, self pointer follows copies).
// Operations (decoded from the fuzzer bytes): process_event, enqueue_event, execute all / single, nested submissions
// from actions, deferral, stop/start, clearing the queues, copying / moving the machine (backmp11), destroying the machine
// with events pending, submachine re-entry (resets its pool on backmp11). Oracle inside the target: every dispatched
// event equals the submitted one (checksum, self pointer); nothing is dispatched that was not submitted, nothing twice;
// after the machine objects are gone no event instance is live. ASan + UBSan are part of the verdict.
#include <fuzzer/FuzzedDataProvider.h>
#include <cstdio>
#include <cstdlib>
#include <map>
#include <set>
#include <memory>
#include <vector>
#include <string>
#ifndef CFG
#error CFG
#endif
#if CFG <= 3
#include <boost/msm/back/state_machine.hpp>
#if CFG == 3
#include <boost/msm/back/queue_container_circular.hpp>
#endif
#elif CFG == 4
#include <boost/msm/back11/state_machine.hpp>
#else
#include <boost/msm/backmp11/state_machine.hpp>
#if CFG == 7
#include <boost/msm/backmp11/favor_compile_time.hpp>
#endif
#endif
#include <boost/msm/front/state_machine_def.hpp>
#include <boost/msm/front/functor_row.hpp>

namespace msm = boost::msm;
namespace mpl = boost::mpl;
using namespace msm::front;

static std::set<const void*> g_live;
static std::multiset<std::pair<int, unsigned>> g_submitted;      // (type tag, value) submitted and not yet dispatched
static unsigned long n_iters = 0, n_ops = 0, n_dispatched = 0, n_nontrivial = 0;
static std::set<size_t> g_distinct;
static bool g_pending_nontrivial = false;

static void flush_stats() {
    const char* p = getenv("QUEUE_FUZZ_STATS");
    if (!p) return;
    FILE* f = fopen(p, "w");
    if (!f) return;
    fprintf(f, "{\"iterations\": %lu, \"ops\": %lu, \"dispatched\": %lu, \"nontrivial_ops\": %lu, \"distinct_nontrivial\": %zu}\n", n_iters, n_ops, n_dispatched, n_nontrivial, g_distinct.size());
    fclose(f);
}
[[noreturn]] static void die(const char* what, int tag, long v) {
    fprintf(stderr, "QUEUE-ORACLE-FAILURE: %s (event type %d, value %ld)\n", what, tag, v);
    flush_stats();
    __builtin_trap();
}
static unsigned char pat(unsigned v, size_t i) { return (unsigned char)(v * 17u + i * 5u + 1u); }

struct EvA { unsigned value; int tag() const { return 0; } bool ok() const { return true; } };                 // trivial, small
template <int Tag, size_t Size, size_t Align, bool ThrowingMove>
struct EvT {
    unsigned value;
    alignas(Align) unsigned char body[Size];
    const EvT* self;
    void fill(unsigned v) { value = v; for (size_t i = 0; i < Size; ++i) body[i] = pat(v, i); }
    void reg() { if (!g_live.insert(this).second) die("constructed over a live instance", Tag, value); self = this; }
    explicit EvT(unsigned v = 0) { fill(v); reg(); }
    EvT(const EvT& o) { if (!g_live.count(&o)) die("copy from a dead instance", Tag, o.value); if (!o.ok()) die("copy source corrupted", Tag, o.value); fill(o.value); reg(); }
    EvT(EvT&& o) noexcept(!ThrowingMove) { if (!g_live.count(&o)) die("move from a dead instance", Tag, o.value); fill(o.value); reg(); }
    EvT& operator=(const EvT& o) { if (!g_live.count(&o) || !g_live.count(this)) die("assignment with a dead instance", Tag, o.value); fill(o.value); return *this; }
    ~EvT() { if (!g_live.erase(this)) die("destroyed twice or never constructed", Tag, value); }
    int tag() const { return Tag; }
    bool ok() const {
        if (!g_live.count(this) || self != this) return false;
        for (size_t i = 0; i < Size; ++i) if (body[i] != pat(value, i)) return false;
        return true;
    }
};
typedef EvT<1, 24, 8, false> EvB;      // non-trivial, fits the inline buffer
typedef EvT<2, 200, 8, false> EvC;     // non-trivial, heap
typedef EvT<3, 16, 8, true> EvD;       // throwing move (forces heap in the pool)
typedef EvT<4, 40, 16, false> EvE;     // over-aligned

template <class E> static void dispatched(const E& e) {
    if (!e.ok()) die("dispatched event differs from the submitted one / is dead", e.tag(), e.value);
    auto it = g_submitted.find({e.tag(), e.value});
    if (it == g_submitted.end()) die("an event was dispatched that is not pending (never submitted, or dispatched twice)", e.tag(), e.value);
    g_submitted.erase(it);
    ++n_dispatched;
}
template <class E> static void submitted(const E& e) { g_submitted.insert({e.tag(), e.value}); }
#include <any>
// backmp11 favor_compile_time hands the type-erased event to no_transition
static void dispatched(const std::any& a) {
    if (auto p = std::any_cast<EvA>(&a)) return dispatched(*p);
    if (auto p = std::any_cast<EvB>(&a)) return dispatched(*p);
    if (auto p = std::any_cast<EvC>(&a)) return dispatched(*p);
    if (auto p = std::any_cast<EvD>(&a)) return dispatched(*p);
    if (auto p = std::any_cast<EvE>(&a)) return dispatched(*p);
    die("no_transition received an any holding an unknown type", -1, 0);
}

struct Check { template <class Ev, class Fsm, class S, class T> void operator()(Ev const& e, Fsm&, S&, T&) { dispatched(e); } };
// an action that submits a further (heap-stored) event while processing
struct CheckAndRaise {
    template <class Ev, class Fsm, class S, class T> void operator()(Ev const& e, Fsm& f, S&, T&) {
        dispatched(e);
        if (e.value % 3 == 0) { EvC n(e.value + 1000); submitted(n); f.process_event(EvC(n)); }
        // the event in flight must survive whatever its own action submits (a full circular queue overwrites its oldest slot)
        if (!e.ok()) die("the event being dispatched was destroyed / corrupted by a submission made from its own action", e.tag(), e.value);
    }
};
// second link of a chain of internally generated events: EvD -> EvC -> EvD
struct CheckAndRaiseD {
    template <class Ev, class Fsm, class S, class T> void operator()(Ev const& e, Fsm& f, S&, T&) {
        dispatched(e);
        if (e.value % 2 == 0) { EvD n(e.value + 1000); submitted(n); f.process_event(EvD(n)); }
        if (!e.ok()) die("the event being dispatched was destroyed / corrupted by a submission made from its own action", e.tag(), e.value);
    }
};
struct St0 : state<> { typedef mpl::vector<EvB, EvC> deferred_events; };
struct St1 : state<> {};
struct T0 : state<> { typedef mpl::vector<EvB> deferred_events; };
struct T1 : state<> {};
struct NoTr { };

struct Sub_ : state_machine_def<Sub_> {
    typedef T0 initial_state;
    struct transition_table : mpl::vector<
        Row<T0, EvD, T1, Check, none>,
        Row<T1, EvD, T0, Check, none>,
        Row<T1, EvB, none, Check, none>,
        Row<T1, EvE, none, Check, none>
    > {};
    template <class Fsm, class Ev> void no_transition(Ev const& e, Fsm&, int) { dispatched(e); }
};
#if CFG == 1
typedef msm::back::state_machine<Sub_> Sub;
#elif CFG == 3
typedef msm::back::state_machine<Sub_, msm::back::queue_container_circular> Sub;
#elif CFG == 4
typedef msm::back11::state_machine<Sub_> Sub;
#elif CFG == 5
struct Sub : msm::backmp11::state_machine<Sub_, msm::backmp11::default_state_machine_config, Sub> {
    void clear_all() { this->get_event_pool().events.clear(); }
};
#else
struct cfg_ct : msm::backmp11::state_machine_config { using compile_policy = msm::backmp11::favor_compile_time; };
struct Sub : msm::backmp11::state_machine<Sub_, cfg_ct, Sub> {
    void clear_all() { this->get_event_pool().events.clear(); }
};
#endif

struct Root_ : state_machine_def<Root_> {
    typedef St0 initial_state;
    struct transition_table : mpl::vector<
        Row<St0, EvA, St1, Check, none>,
        Row<St1, EvA, Sub, Check, none>,
        Row<Sub, EvA, St0, Check, none>,
        Row<St0, EvD, none, Check, none>,
        Row<St0, EvE, none, Check, none>,
        Row<St1, EvB, none, Check, none>,
        Row<St1, EvC, none, CheckAndRaiseD, none>,
        Row<St1, EvD, none, CheckAndRaise, none>,
        Row<St1, EvE, none, Check, none>,
        Row<Sub, EvC, none, Check, none>
    > {};
    template <class Fsm, class Ev> void no_transition(Ev const& e, Fsm&, int) { dispatched(e); }
};
#if CFG == 1
typedef msm::back::state_machine<Root_> RootBase;
#elif CFG == 3
typedef msm::back::state_machine<Root_, msm::back::queue_container_circular> RootBase;
#elif CFG == 4
typedef msm::back11::state_machine<Root_> RootBase;
#elif CFG == 5
typedef msm::backmp11::state_machine<Root_> RootBase0;
#else
typedef msm::backmp11::state_machine<Root_, cfg_ct> RootBase0;
#endif
#if CFG >= 5
struct Root : msm::backmp11::state_machine<Root_,
#if CFG == 5
    msm::backmp11::default_state_machine_config,
#else
    cfg_ct,
#endif
    Root> {
    void clear_all() { this->get_event_pool().events.clear(); this->get_state<Sub>().clear_all(); }
    size_t npending() const { return this->get_event_pool().events.size(); }
};
#else
struct Root : RootBase {
    void clear_all() { this->get_message_queue().clear(); this->clear_deferred_queue();
                       this->get_state<Sub&>().get_message_queue().clear(); this->get_state<Sub&>().clear_deferred_queue(); }
    size_t npending() { return this->get_message_queue_size() + this->get_deferred_queue().size(); }
};
#endif

static size_t g_cap = 128;   // circular queues: capacity chosen per input (a full buffer drops the oldest entry by design;
                             // what is dispatched must still be an intact submitted event)
static void setup(Root& r) {
#if CFG == 3
    r.get_message_queue().set_capacity(g_cap); r.get_deferred_queue().set_capacity(g_cap);
    r.get_state<Sub&>().get_message_queue().set_capacity(g_cap); r.get_state<Sub&>().get_deferred_queue().set_capacity(g_cap);
#else
    (void)r;
#endif
}

template <class F> static void with_event(int t, unsigned v, F&& f) {
    switch (t) {
    case 0: { EvA e{v}; f(e); break; }
    case 1: { EvB e(v); f(e); break; }
    case 2: { EvC e(v); f(e); break; }
    case 3: { EvD e(v); f(e); break; }
    default: { EvE e(v); f(e); break; }
    }
}

extern "C" int LLVMFuzzerTestOneInput(const uint8_t* data, size_t size) {
    static bool reg = (atexit(flush_stats), true);
    (void)reg;
    if (!g_live.empty()) die("event instances leaked from the previous iteration", -1, (long)g_live.size());
    g_submitted.clear();
    FuzzedDataProvider fdp(data, size);
#if CFG == 3
    { static const size_t caps[] = {128, 128, 1, 2, 3, 4}; g_cap = caps[fdp.ConsumeIntegralInRange<int>(0, 5)]; }
#endif
    {
        std::vector<std::unique_ptr<Root>> ms;
        ms.emplace_back(new Root());
        setup(*ms[0]);
        ms[0]->start();
        size_t cur = 0;
        unsigned next = 1;
        size_t hist = 0;
        int nops = fdp.ConsumeIntegralInRange<int>(1, 40);
        for (int k = 0; k < nops && fdp.remaining_bytes() > 0; ++k) {
            int op = fdp.ConsumeIntegralInRange<int>(0, 11);
            Root& r = *ms[cur];
            bool nontriv = false;
            size_t pend_before = r.npending();
            if (op <= 4) {              // process_event
                int t = op == 4 ? 0 : fdp.ConsumeIntegralInRange<int>(0, 4);
                with_event(t, next++, [&](auto& e) { typedef std::decay_t<decltype(e)> E; submitted(e); r.process_event(E(e)); });
            } else if (op <= 6) {       // enqueue_event
                int t = fdp.ConsumeIntegralInRange<int>(0, 4);
                with_event(t, next++, [&](auto& e) { typedef std::decay_t<decltype(e)> E; submitted(e); r.enqueue_event(E(e)); });
            } else if (op == 7) {
#if CFG >= 5
                r.process_event_pool();
#else
                r.execute_queued_events();
#endif
            } else if (op == 8) {
#if CFG >= 5
                r.process_event_pool(1);
#else
                if (r.get_message_queue_size() > 0) r.execute_single_queued_event();
#endif
            } else if (op == 9) {       // clear the queues: the stored copies must be destroyed, they will never be dispatched
                nontriv = pend_before > 0;
                r.clear_all();
                g_submitted.clear();
            } else if (op == 10) {      // stop / start
                nontriv = pend_before > 0;
                r.stop();
                r.start();
            } else {
#if CFG >= 5
                // copy or move the machine with events pending, continue on the new object, destroy the old one
                nontriv = pend_before > 0;
                if (ms.size() < 3) {
                    if (fdp.ConsumeBool()) {
                        const Root& src = r;
                        ms.emplace_back(new Root(src));
                        // the copy owns copies of the pending events: they are extra submissions from the oracle's point of view
                        auto dup = g_submitted;
                        for (auto& x : dup) g_submitted.insert(x);
                        if (fdp.ConsumeBool()) { ms[cur].reset(new Root()); setup(*ms[cur]); ms[cur]->start(); for (auto& x : dup) g_submitted.erase(g_submitted.find(x)); }
                    } else {
                        ms.emplace_back(new Root(std::move(r)));
                        ms[cur].reset(new Root()); setup(*ms[cur]); ms[cur]->start();
                    }
                    cur = ms.size() - 1;
                }
#else
                // back / back11: destroy the machine with events pending and start over
                nontriv = pend_before > 0;
                ms[cur].reset(new Root()); setup(*ms[cur]); ms[cur]->start();
                g_submitted.clear();
#endif
            }
            ++n_ops;
            hist = hist * 13u + (size_t)op;
            if (nontriv) { ++n_nontrivial; g_distinct.insert((hist % 1000003u) * 7919u + pend_before * 31u + g_live.size()); }
        }
    }
    // all machine objects are gone: every stored copy must have been destroyed exactly once
    if (!g_live.empty()) die("stored event copies still alive after the machines were destroyed", -1, (long)g_live.size());
    ++n_iters;
    return 0;
}
