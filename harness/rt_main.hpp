// Case executor: reads one case per line on stdin, writes one trace line per case.
// Included at the end of a generated machine TU; expects namespace gen to provide
//   Root, with_event(idx,payload,f), dump_ids(Root&,std::string&), probe_all(Root&,std::string&),
//   idmap(), init_freeze(), setup_queues(Root&)
#pragma once
#include "rt.hpp"
#ifdef VERIF_SERIALIZE
#include <boost/archive/text_oarchive.hpp>
#include <boost/archive/text_iarchive.hpp>
#include <boost/archive/binary_oarchive.hpp>
#include <boost/archive/binary_iarchive.hpp>
#endif

namespace rt {

struct Objects {
    std::vector<std::unique_ptr<gen::Root>> v;
    void reg() {
        C().objs.clear();
        for (size_t i = 0; i < v.size(); ++i)
            if (v[i]) C().objs.push_back({reinterpret_cast<const char*>(v[i].get()),
                                         reinterpret_cast<const char*>(v[i].get()) + sizeof(gen::Root), (int)i});
    }
};
inline Objects& objs() { static Objects o; return o; }
inline gen::Root& cur() { return *objs().v[C().cur_obj]; }

inline void root_submit(const Script& s) {
    gen::with_event(s.ev, s.payload, [&](auto&& e) {
        typedef std::decay_t<decltype(e)> E;
        if (s.how == 'r') cur().process_event(E(e)); else cur().enqueue_event(E(e));
    });
}
template <class Fsm> void run_submit(Fsm& fsm, const Script& s) {
#ifdef VERIF_SCRIPTS
    gen::with_event(s.ev, s.payload, [&](auto&& e) {
        typedef std::decay_t<decltype(e)> E;
        if (s.how == 'f') fsm.process_event(E(e)); else fsm.enqueue_event(E(e));
    });
#else
    (void)fsm; (void)s;
#endif
}
template <class Fsm> void run_probe(Fsm& fsm) {
    (void)fsm;
    std::string s; gen::probe_inside(cur(), s); tok("pb{" + s + "}");
}

inline void emit_ids() { std::string s; gen::dump_ids(cur(), s); tok("ids{" + s + "}"); }

inline void parse_scripts(const std::vector<std::string>& parts, size_t from) {
    Ctx& c = C();
    c.scripts.clear();
    for (size_t i = from; i < parts.size(); ++i) {
        // k=t | k=b | k=p.ev.payload.how
        auto kv = split(parts[i], '=');
        if (kv.size() != 2) continue;
        Script s; s.at = atoi(kv[0].c_str());
        auto f = split(kv[1], '.');
        s.what = f[0].empty() ? '?' : f[0][0];
        if (s.what == 'p' && f.size() >= 4) { s.ev = atoi(f[1].c_str()); s.payload = atoi(f[2].c_str()); s.how = f[3][0]; }
        c.scripts.push_back(s);
    }
}

inline void begin_op(unsigned long long val) { Ctx& c = C(); c.val = val; c.ordinal = 0; c.in_op = true; }
inline void end_op() { Ctx& c = C(); c.in_op = false; c.scripts.clear(); }

inline void reset_case() {
    Ctx& c = C();
    c.cur_obj = 0; for (auto& f : c.frozen_) f = 0; c.fired = 0; c.scripts.clear();
    objs().v.clear();
    objs().v.emplace_back(new gen::Root());
    gen::setup_queues(*objs().v[0]);
    objs().reg();
}

// A line is a sequence of operations appended to the current case; the operation "R" starts a new case
// (fresh machine objects, all harness state reset).
inline void run_case(const std::string& line) {
    Ctx& c = C();
    c.out.clear();
    std::istringstream is(line);
    std::string op;
    while (is >> op) {
        auto sc = split(op, ';');
        auto f = split(sc[0], ':');
        const std::string& k = f[0];
        try {
            if (k == "R") { reset_case(); tok("[R]"); }
            else if (objs().v.empty()) { tok("?noreset"); break; }
            else if (k == "S") {          // S[:val]
                begin_op(f.size() > 1 ? strtoull(f[1].c_str(), 0, 16) : 0); parse_scripts(sc, 1);
                tok("[S"); cur().start(); tok("]"); end_op(); emit_ids();
            } else if (k == "T") {
                begin_op(f.size() > 1 ? strtoull(f[1].c_str(), 0, 16) : 0); parse_scripts(sc, 1);
                tok("[T"); cur().stop(); tok("]"); end_op(); emit_ids();
            } else if (k == "P") {   // P:ev:payload:val
                int ev = atoi(f[1].c_str()); int pl = atoi(f[2].c_str());
                begin_op(strtoull(f[3].c_str(), 0, 16)); parse_scripts(sc, 1);
                tok("[P" + std::to_string(ev) + "#" + std::to_string(pl));
                int code = -1;
                gen::with_event(ev, pl, [&](auto&& e) { typedef std::decay_t<decltype(e)> E; code = api_code(cur().process_event(E(e))); });
                tok("]=" + std::to_string(code)); end_op(); emit_ids();
            } else if (k == "RP") {  // RP:ev:count:val  the same event `count` times, trace suppressed (counter boundaries)
                int ev = atoi(f[1].c_str()); long n = atol(f[2].c_str());
                begin_op(strtoull(f[3].c_str(), 0, 16));
                std::string saved = c.out;
                for (long i = 0; i < n; ++i) {
                    gen::with_event(ev, 0, [&](auto&& e) { typedef std::decay_t<decltype(e)> E; cur().process_event(E(e)); });
                    c.out.clear();
                }
                c.out = saved;
                tok("[RP" + std::to_string(ev) + "x" + std::to_string(n) + "]"); end_op(); emit_ids();
            } else if (k == "Q") {   // Q:ev:payload
                int ev = atoi(f[1].c_str()); int pl = atoi(f[2].c_str());
                tok("[Q" + std::to_string(ev) + "#" + std::to_string(pl));
                gen::with_event(ev, pl, [&](auto&& e) { typedef std::decay_t<decltype(e)> E; cur().enqueue_event(E(e)); });
                tok("]"); emit_ids();
            } else if (k == "X") {   // X:a:val | X:s:val
                begin_op(f.size() > 2 ? strtoull(f[2].c_str(), 0, 16) : 0); parse_scripts(sc, 1);
                tok("[X" + f[1]);
                long n = -1;
                if (f[1] == "a") n = api_exec_all(cur());
                else if (api_msgq(cur()) > 0) n = api_exec_one(cur());
                else tok("skip");
                tok("]"); if (n >= 0) tok("xn=" + std::to_string(n)); end_op(); emit_ids();
            } else if (k == "B") {
                std::string s; gen::probe_all(cur(), s); tok("PB{" + s + "}");
            } else if (k == "N") {   // pending count
                tok("pend=" + std::to_string(gen::pending(cur())));
            } else if (k == "C") {   // copy-construct from const& -> new object, stays on current
                const gen::Root& src = cur();
                objs().v.emplace_back(new gen::Root(src)); objs().reg();
                c.frozen_[(objs().v.size() - 1) & 7] = c.frozen_ref();
                tok("[C->" + std::to_string(objs().v.size() - 1) + "]");
            } else if (k == "A") {   // A:dst:src  copy-assign
                int d = atoi(f[1].c_str()), s = atoi(f[2].c_str());
                if (d < (int)objs().v.size() && s < (int)objs().v.size() && objs().v[d] && objs().v[s]) {
                    const gen::Root& src = *objs().v[s]; *objs().v[d] = src; c.frozen_[d & 7] = c.frozen_[s & 7]; tok("[A" + f[1] + "<-" + f[2] + "]");
                } else tok("[Askip]");
#if CFG >= 5
            } else if (k == "M") {   // move-construct -> new object
                objs().v.emplace_back(new gen::Root(std::move(cur()))); objs().reg();
                c.frozen_[(objs().v.size() - 1) & 7] = c.frozen_ref();
                tok("[M->" + std::to_string(objs().v.size() - 1) + "]");
            } else if (k == "MA") {  // MA:dst:src move-assign
                int d = atoi(f[1].c_str()), s = atoi(f[2].c_str());
                if (d < (int)objs().v.size() && s < (int)objs().v.size() && objs().v[d] && objs().v[s] && d != s) {
                    *objs().v[d] = std::move(*objs().v[s]); c.frozen_[d & 7] = c.frozen_[s & 7]; tok("[MA" + f[1] + "<-" + f[2] + "]");
                } else tok("[MAskip]");
#endif
            } else if (k == "W") {   // switch driven object
                int i = atoi(f[1].c_str());
                if (i < (int)objs().v.size() && objs().v[i]) { c.cur_obj = i; tok("[W" + f[1] + "]"); emit_ids(); } else tok("[Wskip]");
            } else if (k == "D") {   // destroy object (not the current one)
                int i = atoi(f[1].c_str());
                if (i < (int)objs().v.size() && objs().v[i] && i != c.cur_obj) { objs().v[i].reset(); objs().reg(); tok("[D" + f[1] + "]"); } else tok("[Dskip]");
#ifdef VERIF_SERIALIZE
            } else if (k == "V") {   // V:t | V:b   save current, load into a fresh object
                std::stringstream ss;
                const gen::Root& src = cur();
                objs().v.emplace_back(new gen::Root());
                gen::Root& dst = *objs().v.back();
                gen::setup_queues(dst);      // circular buffers need a capacity (not part of the archive)
                if (f[1] == "t") { { boost::archive::text_oarchive oa(ss); oa << src; } boost::archive::text_iarchive ia(ss); ia >> dst; }
                else { { boost::archive::binary_oarchive oa(ss); oa << src; } boost::archive::binary_iarchive ia(ss); ia >> dst; }
                objs().reg();
                c.frozen_[(objs().v.size() - 1) & 7] = c.frozen_ref();
                tok("[V" + f[1] + "->" + std::to_string(objs().v.size() - 1) + "]");
#endif
            } else {
                tok("?op:" + k);
            }
        } catch (std::exception& e) {
            tok(std::string("ESCAPED:") + e.what()); end_op();
            break;
        }
    }
    tok("fired=" + std::to_string(c.fired));
}

inline int main_loop(int argc, char** argv) {
    gen::init_freeze();
    if (argc > 1 && std::string(argv[1]) == "--idmap") { std::cout << gen::idmap() << "\n"; return 0; }
    std::string line;
    std::cout << "READY " << gen::idmap() << std::endl;
    while (std::getline(std::cin, line)) {
        if (line == "quit") break;
        run_case(line);
        std::cout << C().out << std::endl;
    }
    return 0;
}

} // namespace rt
