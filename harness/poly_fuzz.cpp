// libFuzzer target for boost::msm::backmp11::detail::basic_polymorphic (property C20, part a).
// Stateful model over a pool of slots; the stored types span a grid of sizes (around the 56-byte inline buffer),
// alignments and copy/move/destructor traits. Oracle inside the target:
//   - instance registry: every construction registers its address, every destruction must find it (exactly once),
//     at the end of each iteration no instance is live;
//   - value: each held object carries a checksum body and (self-referential types) a pointer to itself, verified
//     after every operation;
//   - the expected contents of every slot are tracked by a plain model (type index + value).
// ASan + UBSan are part of the verdict. Counters go to $POLY_FUZZ_STATS.
#include <fuzzer/FuzzedDataProvider.h>
#include <boost/msm/backmp11/detail/basic_polymorphic.hpp>
#include <cstdio>
#include <cstdlib>
#include <cstring>
#include <optional>
#include <set>
#include <string>
#include <vector>
#include <utility>

using boost::msm::backmp11::detail::basic_polymorphic;

static std::set<const void*> g_live;
static unsigned long n_iters = 0, n_ops = 0, n_nontrivial = 0;
static std::set<size_t> g_distinct;

static void flush_stats() {
    const char* p = getenv("POLY_FUZZ_STATS");
    if (!p) return;
    FILE* f = fopen(p, "w");
    if (!f) return;
    fprintf(f, "{\"iterations\": %lu, \"ops\": %lu, \"nontrivial_ops\": %lu, \"distinct_nontrivial\": %zu}\n", n_iters, n_ops, n_nontrivial, g_distinct.size());
    fclose(f);
}
[[noreturn]] static void die(const char* what, int type, long v) {
    fprintf(stderr, "POLY-ORACLE-FAILURE: %s (type index %d, value %ld)\n", what, type, v);
    flush_stats();
    __builtin_trap();
}

struct Base { unsigned tag; unsigned value; };

enum Traits { TRIVIAL = 0, NT_COPY = 1, NT_DTOR = 2, THROWING_MOVE = 3, SELFREF = 4 };

static unsigned char pat(unsigned v, size_t i) { return (unsigned char)(v * 31u + i * 7u + 3u); }

template <size_t Size, size_t Align, int Tr, int Tag>
struct Obj;

// trivially copyable
template <size_t Size, size_t Align, int Tag>
struct Obj<Size, Align, TRIVIAL, Tag> : Base {
    alignas(Align) unsigned char body[Size];
    explicit Obj(unsigned v) { tag = Tag; value = v; for (size_t i = 0; i < Size; ++i) body[i] = pat(v, i); }
    bool ok() const { for (size_t i = 0; i < Size; ++i) if (body[i] != pat(value, i)) return false; return tag == Tag; }
};
// registered (non-trivial) variants
template <size_t Size, size_t Align, int Tr, int Tag>
struct Obj : Base {
    alignas(Align) unsigned char body[Size];
    const Obj* self;
    void fill(unsigned v) { tag = Tag; value = v; for (size_t i = 0; i < Size; ++i) body[i] = pat(v, i); }
    void reg() { if (!g_live.insert(this).second) die("constructed over a live instance", Tag, value); self = this; }
    explicit Obj(unsigned v) { fill(v); reg(); }
    Obj(const Obj& o) { if (!g_live.count(&o)) die("copy from a dead instance", Tag, o.value); if (!o.ok()) die("copy source corrupted", Tag, o.value); fill(o.value); reg(); }
    Obj(Obj&& o) noexcept(Tr != THROWING_MOVE) { if (!g_live.count(&o)) die("move from a dead instance", Tag, o.value); fill(o.value); reg(); }
    Obj& operator=(const Obj&) = delete;
    ~Obj() { if (!g_live.erase(this)) die("destroyed twice or never constructed", Tag, value); }
    bool ok() const {
        if (!g_live.count(this)) return false;
        if (self != this) return false;
        for (size_t i = 0; i < Size; ++i) if (body[i] != pat(value, i)) return false;
        return tag == Tag;
    }
};

using Poly = basic_polymorphic<Base>;

struct TypeOps {
    Poly (*make)(unsigned v);
    bool (*ok)(const Base* b);
    bool expect_inline;
    size_t size, align;
    int traits;
};

template <size_t Size, size_t Align, int Tr, int Tag>
static TypeOps ops_for() {
    using T = Obj<Size, Align, Tr, Tag>;
    TypeOps o;
    o.make = [](unsigned v) { return Poly::make<T>(v); };
    o.ok = [](const Base* b) { return static_cast<const T*>(b)->ok(); };
    o.expect_inline = sizeof(T) <= 56 && alignof(T) <= alignof(void*) && std::is_nothrow_move_constructible_v<T>;
    o.size = sizeof(T); o.align = alignof(T); o.traits = Tr;
    return o;
}

static std::vector<TypeOps>& types() {
    static std::vector<TypeOps> t = [] {
        std::vector<TypeOps> v;
#define ROW(S, TAGBASE) \
        v.push_back(ops_for<S, 1, TRIVIAL, TAGBASE + 0>()); v.push_back(ops_for<S, 1, NT_COPY, TAGBASE + 1>()); \
        v.push_back(ops_for<S, 1, NT_DTOR, TAGBASE + 2>()); v.push_back(ops_for<S, 1, THROWING_MOVE, TAGBASE + 3>()); \
        v.push_back(ops_for<S, 1, SELFREF, TAGBASE + 4>()); \
        v.push_back(ops_for<S, 8, TRIVIAL, TAGBASE + 5>()); v.push_back(ops_for<S, 8, NT_COPY, TAGBASE + 6>()); \
        v.push_back(ops_for<S, 16, TRIVIAL, TAGBASE + 7>()); v.push_back(ops_for<S, 16, SELFREF, TAGBASE + 8>()); \
        v.push_back(ops_for<S, 64, NT_DTOR, TAGBASE + 9>());
        ROW(1, 100) ROW(8, 200) ROW(31, 300) ROW(32, 400) ROW(39, 500) ROW(40, 600) ROW(41, 700) ROW(47, 800) ROW(48, 900) ROW(49, 1000)
        ROW(64, 1100) ROW(200, 1200) ROW(512, 1300)
#undef ROW
        return v;
    }();
    return t;
}

struct Slot { std::optional<Poly> p; int type = -1; unsigned value = 0; bool moved_from = false; };

static void verify(std::vector<Slot>& s) {
    for (auto& sl : s) {
        if (!sl.p || sl.moved_from) continue;
        const Base* b = sl.p->get();
        if (!b) die("held object pointer is null", sl.type, sl.value);
        if (b->value != sl.value) die("held value differs from the model", sl.type, sl.value);
        if (!types()[sl.type].ok(b)) die("held object corrupted / not live / self pointer stale", sl.type, sl.value);
        if (sl.p->is_inline() != types()[sl.type].expect_inline) die("inline / heap choice differs from the documented rule", sl.type, sl.value);
    }
}

extern "C" int LLVMFuzzerTestOneInput(const uint8_t* data, size_t size) {
    static bool reg = (atexit(flush_stats), true);
    (void)reg;
    if (!g_live.empty()) die("instances leaked from the previous iteration", -1, (long)g_live.size());
    FuzzedDataProvider fdp(data, size);
    {
        std::vector<Slot> s(5);
        const int NT = (int)types().size();
        int nops = fdp.ConsumeIntegralInRange<int>(1, 40);
        for (int k = 0; k < nops && fdp.remaining_bytes() > 0; ++k) {
            int op = fdp.ConsumeIntegralInRange<int>(0, 7);
            int a = fdp.ConsumeIntegralInRange<int>(0, 4), b = fdp.ConsumeIntegralInRange<int>(0, 4);
            bool interesting = false;
            switch (op) {
            case 0: case 1: {   // make into slot a (move-assign a temporary, or emplace)
                int t = fdp.ConsumeIntegralInRange<int>(0, NT - 1);
                unsigned v = fdp.ConsumeIntegral<uint16_t>();
                if (s[a].p && op == 1) *s[a].p = types()[t].make(v); else s[a].p.emplace(types()[t].make(v));
                s[a].type = t; s[a].value = v; s[a].moved_from = false;
                interesting = types()[t].traits != TRIVIAL;
                break; }
            case 2:             // copy-construct a from b
                if (s[b].p && !s[b].moved_from && a != b) { s[a].p.emplace(*s[b].p); s[a].type = s[b].type; s[a].value = s[b].value; s[a].moved_from = false; interesting = types()[s[b].type].traits != TRIVIAL || !types()[s[b].type].expect_inline; }
                break;
            case 3:             // copy-assign a = b (also self-assignment)
                if (s[a].p && s[b].p && !s[b].moved_from) { *s[a].p = *s[b].p; s[a].type = s[b].type; s[a].value = s[b].value; s[a].moved_from = false; interesting = true; }
                break;
            case 4:             // move-construct a from b
                if (s[b].p && !s[b].moved_from && a != b) { s[a].p.emplace(std::move(*s[b].p)); s[a].type = s[b].type; s[a].value = s[b].value; s[a].moved_from = false; s[b].moved_from = true; interesting = true; }
                break;
            case 5:             // move-assign a = std::move(b) (also self-move)
                if (s[a].p && s[b].p && !s[b].moved_from) {
                    *s[a].p = std::move(*s[b].p);
                    if (a != b) { s[a].type = s[b].type; s[a].value = s[b].value; s[a].moved_from = false; s[b].moved_from = true; }
                    interesting = true;
                }
                break;
            case 6:             // destroy a (also moved-from objects)
                s[a].p.reset(); s[a].moved_from = false; s[a].type = -1;
                break;
            case 7: {           // assign a fresh value into a moved-from object
                if (s[a].p && s[a].moved_from) { int t = fdp.ConsumeIntegralInRange<int>(0, NT - 1); unsigned v = fdp.ConsumeIntegral<uint16_t>(); *s[a].p = types()[t].make(v); s[a].type = t; s[a].value = v; s[a].moved_from = false; interesting = true; }
                break; }
            }
            verify(s);
            ++n_ops;
            if (interesting) { ++n_nontrivial; g_distinct.insert((size_t)op * 1000003u + (size_t)(s[a].type + 1) * 131u + (size_t)(s[b].type + 1)); }
        }
    }
    if (!g_live.empty()) die("stored objects not destroyed when their holders were destroyed", -1, (long)g_live.size());
    ++n_iters;
    return 0;
}
