// libFuzzer target for the PlantUML tokenizer of boost::msm::front::puml (property C14, sub-check 2).
// Structure-aware: the fuzzer bytes are decoded into a document of the documented line grammar
//   [*] -> Init | Source -{1,4}> Target [: [-]event [/ a1,a2,a3] [[guard]]] | State -> [*] | State : flag F | State : entry a | State : exit a
// with arbitrary blanks/tabs, either order of the "/ actions" and "[guard]" parts.  Oracle (inside the target):
//   round trip  - the fields put in are exactly the fields detail::parse_row / parse_stt<t> / parse_inits<r> /
//                 parse_action<a> / count_* return;
//   metamorphic - re-rendering the same document with other padding, arrow lengths and part order parses identically.
// ASan + UBSan are part of the verdict.  Counters are written to $PUML_FUZZ_STATS at exit and before a trap.
#include <fuzzer/FuzzedDataProvider.h>
#include <boost/msm/front/puml/puml.hpp>
#include <string>
#include <vector>
#include <cstdio>
#include <cstdlib>
#include <set>

namespace pd = boost::msm::front::puml::detail;

struct Row {
    std::string src, tgt, ev, guard;
    std::vector<std::string> actions;
    bool internal = false;
};
struct Doc {
    std::vector<std::string> inits;
    std::vector<Row> rows;
    std::vector<std::string> terminates;
    std::vector<std::pair<std::string, std::string>> flags;   // state, flag
};

static unsigned long n_docs = 0, n_rows = 0, n_nontrivial = 0;
static std::set<size_t> distinct;
static std::string last_doc;

static void flush_stats() {
    const char* p = getenv("PUML_FUZZ_STATS");
    if (!p) return;
    FILE* f = fopen(p, "w");
    if (!f) return;
    fprintf(f, "{\"docs\": %lu, \"rows\": %lu, \"nontrivial_rows\": %lu, \"distinct_nontrivial\": %zu}\n", n_docs, n_rows, n_nontrivial, distinct.size());
    fclose(f);
    const char* s = getenv("PUML_FUZZ_SAMPLE");
    if (s) { FILE* g = fopen(s, "w"); if (g) { fputs(last_doc.c_str(), g); fclose(g); } }
}

[[noreturn]] static void die(const char* what, const std::string& doc, const std::string& got, const std::string& want) {
    fprintf(stderr, "PUML-ORACLE-FAILURE: %s\n  got : '%s'\n  want: '%s'\n  document:\n%s\n", what, got.c_str(), want.c_str(), doc.c_str());
    flush_stats();
    __builtin_trap();
}

static std::string ident(FuzzedDataProvider& fdp, const char* prefix) {
    static const char alnum[] = "abcdefghijklmnopqrstuvwxyzABCDEFGHIJKLMNOPQRSTUVWXYZ0123456789_";
    std::string s = prefix;
    int n = fdp.ConsumeIntegralInRange<int>(1, 6);
    for (int i = 0; i < n; ++i) s += alnum[fdp.ConsumeIntegralInRange<int>(0, sizeof(alnum) - 2)];
    return s;
}
static std::string blanks(FuzzedDataProvider& fdp, int mode) {
    if (mode == 0) return " ";
    int n = fdp.ConsumeIntegralInRange<int>(0, 3);
    std::string s;
    for (int i = 0; i < n; ++i) s += fdp.ConsumeBool() ? ' ' : '\t';
    return s;
}
static std::string guard_expr(FuzzedDataProvider& fdp, int depth, bool allow_paren) {
    // atoms, !, &&, ||, one level of parentheses; rendered without blanks inside identifiers
    int k = depth <= 0 ? 0 : fdp.ConsumeIntegralInRange<int>(0, 4);
    if (k == 0) return ident(fdp, "g");
    if (k == 1) return "!" + ident(fdp, "g");
    if (k == 2) return guard_expr(fdp, depth - 1, allow_paren) + " && " + guard_expr(fdp, depth - 1, allow_paren);
    if (k == 3) return guard_expr(fdp, depth - 1, allow_paren) + " || " + guard_expr(fdp, depth - 1, allow_paren);
    if (allow_paren) return "(" + guard_expr(fdp, depth - 1, false) + ")";
    return ident(fdp, "g");
}

// renders a document; style bytes decide padding / arrow length / order of the optional parts
static std::string render(const Doc& d, FuzzedDataProvider& fdp, int mode) {
    std::string o = "@startuml T\nstate T{\n";
    auto B = [&]() { return blanks(fdp, mode); };
    for (auto& s : d.inits) o += B() + "[*]" + B() + "->" + B() + s + B() + "\n";
    for (auto& r : d.rows) {
        std::string arrow(mode == 0 ? 1 : fdp.ConsumeIntegralInRange<int>(1, 4), '-');
        arrow += ">";
        o += B() + r.src + (mode == 0 ? " " : blanks(fdp, 1)) + arrow + B() + r.tgt;
        bool has_right = !r.ev.empty() || !r.actions.empty() || !r.guard.empty() || r.internal;
        if (has_right) {
            o += B() + ":" + B() + (r.internal ? "-" : "") + r.ev;
            std::string act, grd;
            if (!r.actions.empty()) {
                act = B() + "/" + B();
                for (size_t i = 0; i < r.actions.size(); ++i) act += (i ? B() + "," + B() : std::string()) + r.actions[i];
            }
            if (!r.guard.empty()) grd = B() + "[" + B() + r.guard + B() + "]";
            bool guard_first = mode != 0 && !act.empty() && !grd.empty() && fdp.ConsumeBool();
            o += guard_first ? grd + act : act + grd;
        }
        o += B() + "\n";
    }
    for (auto& s : d.terminates) o += B() + s + B() + "->" + B() + "[*]" + B() + "\n";
    for (auto& f : d.flags) o += B() + f.first + B() + ":" + B() + "flag " + f.second + "\n";
    o += "}\n@enduml\n";
    return o;
}

template <int N> struct stt_at { static pd::Transition get(std::string_view s, int t) { return t == N ? pd::parse_stt<N>(s) : stt_at<N - 1>::get(s, t); } };
template <> struct stt_at<-1> { static pd::Transition get(std::string_view, int) { return pd::Transition{}; } };
template <int N> struct init_at { static std::string_view get(std::string_view s, int t) { return t == N ? pd::parse_inits<N>(s) : init_at<N - 1>::get(s, t); } };
template <> struct init_at<-1> { static std::string_view get(std::string_view, int) { return {}; } };
template <int N> struct act_at { static std::string_view get(std::string_view s, int t) { return t == N ? pd::parse_action<N>(s) : act_at<N - 1>::get(s, t); } };
template <> struct act_at<-1> { static std::string_view get(std::string_view, int) { return {}; } };

static void check_doc(const Doc& d, const std::string& text) {
    std::string_view sv(text);
    int ntrans = pd::count_transitions(sv), ninit = pd::count_inits(sv), nterm = pd::count_terminates(sv);
    if (ninit != (int)d.inits.size()) die("count_inits", text, std::to_string(ninit), std::to_string(d.inits.size()));
    if (nterm != (int)d.terminates.size()) die("count_terminates", text, std::to_string(nterm), std::to_string(d.terminates.size()));
    if (ntrans - ninit - nterm != (int)d.rows.size()) die("count_transitions", text, std::to_string(ntrans - ninit - nterm), std::to_string(d.rows.size()));
    for (size_t i = 0; i < d.inits.size(); ++i) {
        std::string got(init_at<7>::get(sv, (int)i));
        if (got != d.inits[i]) die("parse_inits", text, got, d.inits[i]);
    }
    for (size_t i = 0; i < d.rows.size(); ++i) {
        const Row& r = d.rows[i];
        pd::Transition t = stt_at<11>::get(sv, (int)i);
        std::string src(t.source), tgt(t.target), ev(t.event), gd(t.guard), ac(t.action);
        if (src != r.src) die("source", text, src, r.src);
        std::string want_tgt = r.internal ? std::string() : r.tgt;
        if (tgt != want_tgt) die("target", text, tgt, want_tgt);
        if (ev != r.ev) die("event", text, ev, r.ev);
        // guard text: compare modulo blanks (the tokenizer trims, the guard parser later ignores blanks around operators)
        auto squeeze = [](std::string s) { std::string o; for (char c : s) if (c != ' ' && c != '\t') o += c; return o; };
        if (squeeze(gd) != squeeze(r.guard)) die("guard", text, gd, r.guard);
        int na = pd::count_actions(std::string_view(ac));
        if (na != (int)r.actions.size()) die("count_actions", text, std::to_string(na) + " in '" + ac + "'", std::to_string(r.actions.size()));
        for (int a = 0; a < na; ++a) {
            std::string one(act_at<3>::get(std::string_view(ac), a));
            if (one != r.actions[a]) die("action", text, one, r.actions[a]);
        }
    }
}

extern "C" int LLVMFuzzerTestOneInput(const uint8_t* data, size_t size) {
    static bool reg = (atexit(flush_stats), true);
    (void)reg;
    FuzzedDataProvider fdp(data, size);
    Doc d;
    int ninit = fdp.ConsumeIntegralInRange<int>(1, 3);
    for (int i = 0; i < ninit; ++i) d.inits.push_back(ident(fdp, "S"));
    int nrows = fdp.ConsumeIntegralInRange<int>(0, 10);
    for (int i = 0; i < nrows; ++i) {
        Row r;
        r.src = ident(fdp, "S");
        int kind = fdp.ConsumeIntegralInRange<int>(0, 9);
        if (kind == 0) { r.tgt = r.src; r.internal = true; r.ev = fdp.ConsumeBool() ? std::string("*") : ident(fdp, "e"); }
        else {
            r.tgt = ident(fdp, "S");
            if (kind >= 2) r.ev = kind == 9 ? std::string("*") : ident(fdp, "e");     // kind 1: no event part (or anonymous with parts)
        }
        int na = fdp.ConsumeIntegralInRange<int>(0, 3);
        if (kind == 1 && !fdp.ConsumeBool()) na = 0;
        for (int a = 0; a < na; ++a) r.actions.push_back(fdp.ConsumeIntegralInRange<int>(0, 9) == 0 ? std::string("defer") : ident(fdp, "a"));
        if ((kind != 1 || na) && fdp.ConsumeBool()) r.guard = guard_expr(fdp, 2, true);
        d.rows.push_back(r);
    }
    int nterm = fdp.ConsumeIntegralInRange<int>(0, 2);
    for (int i = 0; i < nterm; ++i) d.terminates.push_back(ident(fdp, "S"));
    int nfl = fdp.ConsumeIntegralInRange<int>(0, 2);
    for (int i = 0; i < nfl; ++i) d.flags.push_back({ident(fdp, "S"), ident(fdp, "F")});
    // canonical rendering and a re-styled rendering: both must parse to the fields we put in
    std::string canon = render(d, fdp, 0);
    check_doc(d, canon);
    std::string styled = render(d, fdp, 1);
    check_doc(d, styled);
    ++n_docs;
    n_rows += d.rows.size();
    for (auto& r : d.rows) {
        int parts = (!r.ev.empty()) + (!r.actions.empty()) + (!r.guard.empty()) + r.internal;
        if (parts >= 2) { ++n_nontrivial; distinct.insert(std::hash<std::string>()(r.src + ">" + r.tgt + ":" + r.ev + "/" + std::to_string(r.actions.size()) + "[" + r.guard)); }
    }
    last_doc = styled;
    return 0;
}
